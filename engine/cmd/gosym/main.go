// gosym: bounded symbolic execution of Go SSA for the /verif checks.
//
//	gosym check <property-id> <quick|thorough>   run all harnesses of a property
//	gosym replay <script.json>                   replay one counterexample natively
//	gosym run <spec.json> <unit> <entry> [tier]  explore one harness, print the report
package main

import (
	"crypto/sha1"
	"encoding/json"
	"fmt"
	"os"
	osexec "os/exec"
	"path/filepath"
	"regexp"
	"runtime/pprof"
	"sort"
	"strconv"
	"strings"
	"time"

	"gosym/exec"
)

var (
	verifDir = envOr("VERIF_DIR", "/verif")
	repoDir  = envOr("VERIF_REPO", "/repo")
)

func envOr(k, d string) string {
	if v := os.Getenv(k); v != "" {
		return v
	}
	return d
}

// ---- spec

type Transform struct {
	File    string `json:"file"`  // relative to the unit's package directory
	Regex   string `json:"regex"` // must match exactly Expect times
	Repl    string `json:"repl"`
	Expect  int    `json:"expect"`
	Literal string `json:"literal,omitempty"` // the spec value the source literal must have (first capture group)
}

type TierBounds struct {
	MaxSteps    int            `json:"max_steps"`
	MaxPaths    int            `json:"max_paths"`
	Preemptions int            `json:"preemptions"`
	TimerFires  int            `json:"timer_fires"`
	HorizonMS   int            `json:"timer_horizon_ms"` // timers with a longer known duration never fire (0 = any timer may fire)
	Alloc       int            `json:"alloc"`
	TimeoutS    int            `json:"solver_timeout_s"`
	DeadlineS   int            `json:"deadline_s"`
	Params      map[string]int `json:"params"`
	Skip        bool           `json:"skip"`
}

type Harness struct {
	Entry    string     `json:"entry"`
	What     string     `json:"what"`
	Reach    []string   `json:"reach"`
	Quick    TierBounds `json:"quick"`
	Thorough TierBounds `json:"thorough"`
	// labels whose violation is a finding recorded in known_findings.json
	Demonstrates []string `json:"demonstrates"`
	Concurrent   bool     `json:"concurrent"`
	// counterexamples cannot be reproduced natively (virtual clock): confirmed by engine re-execution
	EngineConfirm bool `json:"engine_confirm"`
	Vacuity       bool `json:"vacuity"` // twin whose assert(false) must be violated
}

type Unit struct {
	Name       string            `json:"name"`
	Dir        string            `json:"dir"`     // module directory relative to the repository root
	Pkg        string            `json:"pkg"`     // package pattern relative to Dir
	PkgName    string            `json:"pkgname"` // Go package name
	Files      []string          `json:"files"`   // harness sources in the property's directory (or ../common/x)
	Transforms []Transform       `json:"transforms"`
	Redirects  map[string]string `json:"redirects"`
	Noops      []string          `json:"noops"`
	Merges     []string          `json:"merges"`
	DenyInit   []string          `json:"deny_init"`
	Env        map[string]string `json:"env"`
	LenientFmt bool              `json:"lenient_sprintf"` // symbolic numbers in Sprintf render as a placeholder
	Harnesses  []Harness         `json:"harnesses"`
}

type Spec struct {
	Property    string   `json:"property"`
	Units       []Unit   `json:"units"`
	Assumptions []string `json:"assumptions"`
	Bounds      string   `json:"bounds"`
}

type KnownFinding struct {
	Status   string `json:"status"` // known | fixed
	Property string `json:"property"`
	Harness  string `json:"harness"`
	Label    string `json:"label"`
	What     string `json:"what"`
	Commit   string `json:"commit,omitempty"`
}

type KnownFile struct {
	Findings []KnownFinding `json:"findings"`
}

func loadSpec(id string) (*Spec, string, error) {
	dir := filepath.Join(verifDir, "harness", id)
	b, err := os.ReadFile(filepath.Join(dir, "spec.json"))
	if err != nil {
		return nil, "", err
	}
	var s Spec
	if err := json.Unmarshal(b, &s); err != nil {
		return nil, "", fmt.Errorf("spec.json: %v", err)
	}
	return &s, dir, nil
}

func loadKnown() KnownFile {
	var k KnownFile
	b, err := os.ReadFile(filepath.Join(verifDir, "known_findings.json"))
	if err == nil {
		json.Unmarshal(b, &k)
	}
	return k
}

// ---- overlays

type builtUnit struct {
	u          *Unit
	pkgDir     string            // absolute package directory in the repository
	engine     map[string][]byte // overlay for go/packages
	nativeSrc  map[string][]byte // virtual path -> content for go test -overlay
	transforms []string
}

func pkgDirOf(u *Unit) string {
	p := u.Pkg
	if p == "" || p == "." {
		return filepath.Join(repoDir, u.Dir)
	}
	return filepath.Join(repoDir, u.Dir, strings.TrimPrefix(p, "./"))
}

func buildUnit(u *Unit, specDir string) (*builtUnit, error) {
	bu := &builtUnit{u: u, pkgDir: pkgDirOf(u), engine: map[string][]byte{}, nativeSrc: map[string][]byte{}}
	nd, err := os.ReadFile(filepath.Join(verifDir, "harness", "common", "nd.go.tmpl"))
	if err != nil {
		return nil, err
	}
	nd = []byte(strings.Replace(string(nd), "package PKGNAME", "package "+u.PkgName, 1))
	ndPath := filepath.Join(bu.pkgDir, "zz_verif_nd.go")
	bu.engine[ndPath] = nd
	bu.nativeSrc[ndPath] = nd
	for _, f := range u.Files {
		src, err := os.ReadFile(filepath.Join(specDir, f))
		if err != nil {
			return nil, err
		}
		txt := string(src)
		if strings.Contains(txt, "package PKGNAME") {
			txt = strings.Replace(txt, "package PKGNAME", "package "+u.PkgName, 1)
		}
		vp := filepath.Join(bu.pkgDir, "zz_verif_"+filepath.Base(f))
		bu.engine[vp] = []byte(txt)
		bu.nativeSrc[vp] = []byte(txt)
	}
	for _, tr := range u.Transforms {
		p := filepath.Join(bu.pkgDir, tr.File)
		if strings.HasPrefix(tr.File, "//") {
			p = filepath.Join(repoDir, tr.File[2:])
		} else if filepath.IsAbs(tr.File) {
			p = tr.File
		}
		src, ok := bu.engine[p]
		if !ok {
			src, err = os.ReadFile(p)
			if err != nil {
				return nil, fmt.Errorf("transform: %v", err)
			}
		}
		re, err := regexp.Compile(tr.Regex)
		if err != nil {
			return nil, fmt.Errorf("transform regex: %v", err)
		}
		ms := re.FindAllSubmatch(src, -1)
		if len(ms) != tr.Expect {
			return nil, fmt.Errorf("transform %s on %s: %d matches, expected %d", tr.Regex, tr.File, len(ms), tr.Expect)
		}
		if tr.Literal != "" {
			for _, mm := range ms {
				if len(mm) < 2 || string(mm[1]) != tr.Literal {
					return nil, fmt.Errorf("LITERAL-MISMATCH transform %s on %s: source literal %q differs from the specification value %q", tr.Regex, tr.File, mm[1], tr.Literal)
				}
			}
		}
		out := re.ReplaceAll(src, []byte(tr.Repl))
		bu.engine[p] = out
		bu.nativeSrc[p] = out
		bu.transforms = append(bu.transforms, fmt.Sprintf("%s: /%s/ -> %s", tr.File, tr.Regex, tr.Repl))
	}
	return bu, nil
}

// ---- native replay

type replayScript struct {
	Property string            `json:"property"`
	Unit     string            `json:"unit"`
	Entry    string            `json:"entry"`
	Label    string            `json:"label"`
	Kind     string            `json:"kind"`
	Msg      string            `json:"msg,omitempty"`
	Params   map[string]int    `json:"params"`
	Script   []exec.InputRec   `json:"script"`
	Env      map[string]string `json:"env,omitempty"`
	Sched    []int64           `json:"sched,omitempty"`
	Trace    []int64           `json:"trace,omitempty"`
	Tier     string            `json:"tier,omitempty"`
}

type nativeResult struct {
	Outcome string
	Failed  []string
	Reached []string
	Msg     string
}

var resultRe = regexp.MustCompile(`VERIF-REPLAY-RESULT: script=(\S+) outcome=(\S+) failed=\[([^\]]*)\] reached=\[([^\]]*)\] msg=(.*)$`)

// runNative replays scripts (paths) of one unit in a single go test run.
func runNative(bu *builtUnit, scripts []string) (map[string]nativeResult, string, error) {
	res := map[string]nativeResult{}
	if len(scripts) == 0 {
		return res, "", nil
	}
	tmp, err := os.MkdirTemp("", "gosym-replay-")
	if err != nil {
		return nil, "", err
	}
	defer os.RemoveAll(tmp)
	overlay := map[string]string{}
	i := 0
	for vp, content := range bu.nativeSrc {
		i++
		rp := filepath.Join(tmp, fmt.Sprintf("f%d_%s", i, filepath.Base(vp)))
		if err := os.WriteFile(rp, content, 0o644); err != nil {
			return nil, "", err
		}
		overlay[vp] = rp
	}
	// test wrapper
	tt, err := os.ReadFile(filepath.Join(verifDir, "harness", "common", "replay_test.go.tmpl"))
	if err != nil {
		return nil, "", err
	}
	var ents []string
	for _, h := range bu.u.Harnesses {
		ents = append(ents, fmt.Sprintf("\t\t%q: %s,", h.Entry, h.Entry))
	}
	ts := strings.Replace(string(tt), "package PKGNAME", "package "+bu.u.PkgName, 1)
	ts = strings.Replace(ts, "ENTRIES", strings.Join(ents, "\n"), 1)
	tp := filepath.Join(tmp, "zz_verif_replay_test.go")
	os.WriteFile(tp, []byte(ts), 0o644)
	overlay[filepath.Join(bu.pkgDir, "zz_verif_replay_test.go")] = tp
	ob, _ := json.Marshal(map[string]interface{}{"Replace": overlay})
	op := filepath.Join(tmp, "overlay.json")
	os.WriteFile(op, ob, 0o644)
	sdir := filepath.Join(tmp, "scripts")
	os.Mkdir(sdir, 0o755)
	names := map[string]string{}
	for k, s := range scripts {
		b, err := os.ReadFile(s)
		if err != nil {
			return nil, "", err
		}
		n := filepath.Join(sdir, fmt.Sprintf("%04d.json", k))
		os.WriteFile(n, b, 0o644)
		names[n] = s
	}
	pat := bu.u.Pkg
	if pat == "" {
		pat = "."
	}
	cmd := osexec.Command("go", "test", "-vet=off", "-count=1", "-timeout", "300s", "-overlay", op, "-run", "^TestVerifReplay$", "-v", pat)
	cmd.Dir = filepath.Join(repoDir, bu.u.Dir)
	cmd.Env = append(os.Environ(), "GOFLAGS=-mod=mod", "GOPROXY=off", "GOSUMDB=off", "GOTOOLCHAIN=local", "VERIF_REPLAY_DIR="+sdir)
	out, _ := cmd.CombinedOutput()
	for _, line := range strings.Split(string(out), "\n") {
		m := resultRe.FindStringSubmatch(strings.TrimSpace(line))
		if m == nil {
			continue
		}
		r := nativeResult{Outcome: m[2], Msg: m[5]}
		if m[3] != "" {
			r.Failed = strings.Split(m[3], ",")
		}
		if m[4] != "" {
			r.Reached = strings.Split(m[4], ",")
		}
		res[names[m[1]]] = r
	}
	// a crash of the test binary (panic in a goroutine, fatal error) loses the
	// remaining results: attribute it to the first script without a result
	if len(res) < len(scripts) {
		var keys []string
		for n := range names {
			keys = append(keys, n)
		}
		sort.Strings(keys)
		for _, n := range keys {
			if _, ok := res[names[n]]; !ok {
				msg := ""
				if i := strings.Index(string(out), "panic:"); i >= 0 {
					msg = firstLines(string(out)[i:], 3)
				} else if i := strings.Index(string(out), "fatal error:"); i >= 0 {
					msg = firstLines(string(out)[i:], 3)
				} else {
					msg = firstLines(string(out), 12)
				}
				res[names[n]] = nativeResult{Outcome: "crash", Msg: msg}
				break
			}
		}
	}
	return res, string(out), nil
}

func firstLines(s string, n int) string {
	ls := strings.Split(s, "\n")
	if len(ls) > n {
		ls = ls[:n]
	}
	return strings.Join(ls, " | ")
}

func has(xs []string, x string) bool {
	for _, y := range xs {
		if y == x {
			return true
		}
	}
	return false
}

// confirms reports whether the native result reproduces the predicted violation.
func confirms(v replayScript, r nativeResult) bool {
	switch v.Kind {
	case "assert":
		return has(r.Failed, v.Label)
	case "panic":
		return r.Outcome == "panic" || r.Outcome == "crash"
	}
	return false
}

// ---- check

type harnessEvidence struct {
	Unit           string            `json:"unit"`
	Entry          string            `json:"entry"`
	What           string            `json:"what,omitempty"`
	Bounds         TierBounds        `json:"bounds"`
	Paths          int               `json:"paths_completed"`
	Infeasible     int               `json:"paths_infeasible"`
	ViolationEnds  int               `json:"paths_ended_by_violation"`
	Runs           int               `json:"executions"`
	Decisions      int               `json:"decisions"`
	Steps          int               `json:"ssa_instructions_executed"`
	QuerySat       int               `json:"queries_sat"`
	QueryUnsat     int               `json:"queries_unsat"`
	QueryUnknown   int               `json:"queries_unknown"`
	QueryErrors    int               `json:"queries_error"`
	VerdictQueries int               `json:"verdict_queries"`
	SolverTimeS    float64           `json:"solver_time_s"`
	SlowestQueryS  float64           `json:"slowest_query_s"`
	WallS          float64           `json:"wall_s"`
	Reached        []string          `json:"reach_markers_hit"`
	Unsupported    map[string]int    `json:"unsupported_paths,omitempty"`
	Unwind         map[string]int    `json:"unwinding_failures,omitempty"`
	EngineErrors   map[string]int    `json:"engine_errors,omitempty"`
	Violations     map[string]int    `json:"violations_by_label,omitempty"`
	Functions      []exec.FuncStat   `json:"functions_encoded"`
	Stubs          map[string]int    `json:"stubs_hit,omitempty"`
	InitFailed     map[string]string `json:"package_inits_not_completed,omitempty"`
	Transforms     []string          `json:"source_transforms,omitempty"`
	LoadS          float64           `json:"load_s"`
	Packages       int               `json:"packages_loaded"`
}

func tierOf(h *Harness, tier string) TierBounds {
	b := h.Quick
	if tier == "thorough" {
		t := h.Thorough
		// thorough inherits unset fields from quick
		if t.MaxSteps == 0 {
			t.MaxSteps = b.MaxSteps
		}
		if t.MaxPaths == 0 {
			t.MaxPaths = b.MaxPaths
		}
		if t.Preemptions == 0 {
			t.Preemptions = b.Preemptions
		}
		if t.TimerFires == 0 {
			t.TimerFires = b.TimerFires
		}
		if t.HorizonMS == 0 {
			t.HorizonMS = b.HorizonMS
		}
		if t.Alloc == 0 {
			t.Alloc = b.Alloc
		}
		if t.TimeoutS == 0 {
			t.TimeoutS = b.TimeoutS
		}
		if t.DeadlineS == 0 {
			t.DeadlineS = b.DeadlineS * 10
		}
		if t.Params == nil {
			t.Params = b.Params
		} else {
			for k, v := range b.Params {
				if _, ok := t.Params[k]; !ok {
					t.Params[k] = v
				}
			}
		}
		b = t
	}
	// wall-clock budget per harness (a change that breaks a property can also
	// multiply its schedules without producing a violation in this harness: the
	// run then ends INCONCLUSIVE for it and goes on with the next harness)
	if b.DeadlineS == 0 {
		b.DeadlineS = 300
		if tier == "thorough" {
			b.DeadlineS = 3000
		}
		if v := os.Getenv("GOSYM_DEADLINE_S"); v != "" {
			b.DeadlineS, _ = strconv.Atoi(v)
		}
	}
	if b.MaxSteps == 0 {
		b.MaxSteps = 2000000
	}
	if b.MaxPaths == 0 {
		b.MaxPaths = 2000000
	}
	if b.Alloc == 0 {
		b.Alloc = 16
	}
	if b.TimeoutS == 0 {
		// generous on purpose: the slowest verdict query of a default-time-out
		// harness takes 3 s on the unchanged tree; a loaded machine must not
		// turn a pass into INCONCLUSIVE
		b.TimeoutS = 60
		if tier == "thorough" {
			b.TimeoutS = 180
		}
	}
	return b
}

func workers() int {
	if v := os.Getenv("GOSYM_WORKERS"); v != "" {
		if n, err := strconv.Atoi(v); err == nil && n > 0 {
			return n
		}
	}
	return 16
}

func scriptHash(s replayScript) string {
	b, _ := json.Marshal(s.Script)
	h := sha1.Sum(append(b, []byte(s.Entry+s.Label)...))
	return fmt.Sprintf("%x", h[:5])
}

func check(id, tier string) int {
	t0 := time.Now()
	seed := 0
	if v := os.Getenv("VERIF_SEED"); v != "" {
		seed, _ = strconv.Atoi(v)
	}
	spec, specDir, err := loadSpec(id)
	if err != nil {
		fmt.Printf("INCONCLUSIVE property=%s cannot load spec: %v\n", id, err)
		return 2
	}
	known := loadKnown()
	isKnown := func(entry, label string) *KnownFinding {
		for i := range known.Findings {
			k := &known.Findings[i]
			if k.Property == id && k.Harness == entry && k.Label == label && k.Status == "known" {
				return k
			}
		}
		return nil
	}
	replayDir := filepath.Join(verifDir, "replay", id)
	os.MkdirAll(replayDir, 0o755)

	var hev []harnessEvidence
	var samples []interface{}
	inconclusive := []string{}
	violations := 0
	knownLines := []string{}
	validated := 0
	unconfirmed := 0
	totalPaths, totalDecisions := 0, 0
	assumptions := append([]string{}, spec.Assumptions...)

	for ui := range spec.Units {
		u := &spec.Units[ui]
		bu, err := buildUnit(u, specDir)
		if err != nil {
			if strings.Contains(err.Error(), "LITERAL-MISMATCH") {
				// the specification literal changed in the source: a violation of the scaled-limit companion check
				p := filepath.Join(replayDir, "literal-"+u.Name+".json")
				os.WriteFile(p, []byte(fmt.Sprintf("{\"property\":%q,\"unit\":%q,\"kind\":\"literal\",\"msg\":%q}\n", id, u.Name, err.Error())), 0o644)
				fmt.Printf("VIOLATION property=%s replay=%s\n", id, p)
				fmt.Printf("  %v\n", err)
				violations++
				continue
			}
			fmt.Printf("INCONCLUSIVE property=%s unit=%s setup: %v\n", id, u.Name, err)
			inconclusive = append(inconclusive, "setup "+u.Name)
			continue
		}
		var prog *exec.Program
		var pending []string // scripts to replay natively
		pendingInfo := map[string]replayScript{}
		pendingWitness := map[string]bool{}
		pendingGroup := map[string]string{} // script -> harness+label (alternative counterexamples of one label)
		for hi := range u.Harnesses {
			h := &u.Harnesses[hi]
			b := tierOf(h, tier)
			if b.Skip {
				continue
			}
			if only := os.Getenv("GOSYM_ONLY"); only != "" && !has(strings.Split(only, ","), h.Entry) {
				continue
			}
			if prog == nil {
				prog, err = exec.Load(exec.Config{Dir: filepath.Join(repoDir, u.Dir), Pkg: u.Pkg, Overlay: bu.engine,
					Redirects: u.Redirects, Noops: u.Noops, Merges: u.Merges, DenyInit: u.DenyInit, Env: u.Env, LenientSprintf: u.LenientFmt,
					Workers: workers(), TimeoutMS: b.TimeoutS * 1000, Solver: envOr("GOSYM_SOLVER", "z3")})
				if err != nil {
					fmt.Printf("INCONCLUSIVE property=%s unit=%s load: %v\n", id, u.Name, err)
					inconclusive = append(inconclusive, "load "+u.Name)
					break
				}
			}
			want := map[string]bool{}
			for _, l := range h.Reach {
				want[l] = true
			}
			opts := exec.ExploreOpts{Entry: h.Entry, MaxPaths: b.MaxPaths, Alloc: b.Alloc, Seed: int64(seed), TimeoutMS: b.TimeoutS * 1000,
				Limits: exec.Limits{MaxSteps: b.MaxSteps, Preemptions: b.Preemptions, TimerFires: b.TimerFires, TimerHorizonNS: int64(b.HorizonMS) * 1e6, WantWitness: want, Params: b.Params}}
			if v := os.Getenv("GOSYM_MAXRUNS"); v != "" {
				opts.MaxPaths, _ = strconv.Atoi(v)
			}
			if b.DeadlineS > 0 {
				d := b.DeadlineS
				if violations > 0 && tier == "quick" && d > 30 {
					// the verdict of this run is already "violated" (confirmed): the
					// remaining harnesses get a short budget each
					d = 30
				}
				opts.Deadline = time.Now().Add(time.Duration(d) * time.Second)
			}
			// a violation ends the exploration of its harness early (not for the
			// labels a demonstrator of a recorded finding is expected to produce)
			opts.StopGraceRuns = 20000
			if v := os.Getenv("GOSYM_STOPGRACE"); v != "" {
				opts.StopGraceRuns, _ = strconv.Atoi(v)
			}
			opts.ExpectedLabels = map[string]bool{"vacuity": true}
			for _, l := range h.Demonstrates {
				opts.ExpectedLabels[l] = true
			}
			rep, err := prog.Explore(opts)
			if err != nil {
				fmt.Printf("INCONCLUSIVE property=%s harness=%s: %v\n", id, h.Entry, err)
				inconclusive = append(inconclusive, h.Entry)
				continue
			}
			he := harnessEvidence{Unit: u.Name, Entry: h.Entry, What: h.What, Bounds: b, Paths: rep.Paths, Infeasible: rep.Infeasible,
				ViolationEnds: rep.ViolationEnds, Runs: rep.TotalRuns, Decisions: rep.Decisions, Steps: rep.Steps,
				QuerySat: rep.Queries.Sat, QueryUnsat: rep.Queries.Unsat, QueryUnknown: rep.Queries.Unknown, QueryErrors: rep.Queries.Errors,
				VerdictQueries: rep.VerdictQ, SolverTimeS: rep.Queries.Time.Seconds(), SlowestQueryS: rep.Queries.Slowest.Seconds(),
				WallS: rep.Wall.Seconds(), Functions: repoFuncs(rep.Funcs), Stubs: rep.Stubs, InitFailed: rep.InitFailed,
				Transforms: bu.transforms, LoadS: prog.LoadTime.Seconds(), Packages: prog.NumPkgs, Violations: rep.ViolCount}
			for l := range rep.Reached {
				he.Reached = append(he.Reached, l)
			}
			sort.Strings(he.Reached)
			if len(rep.Unsupported) > 0 {
				he.Unsupported = rep.Unsupported
			}
			if len(rep.Unwind) > 0 {
				he.Unwind = rep.Unwind
			}
			if len(rep.EngineErrors) > 0 {
				he.EngineErrors = rep.EngineErrors
			}
			hev = append(hev, he)
			totalPaths += rep.Paths + rep.ViolationEnds
			totalDecisions += rep.Decisions
			fmt.Printf("harness %s/%s: paths=%d infeasible=%d violation-ends=%d runs=%d decisions=%d queries sat=%d unsat=%d unknown=%d solver=%.1fs wall=%.1fs\n",
				u.Name, h.Entry, rep.Paths, rep.Infeasible, rep.ViolationEnds, rep.TotalRuns, rep.Decisions, rep.Queries.Sat, rep.Queries.Unsat, rep.Queries.Unknown, rep.Queries.Time.Seconds(), rep.Wall.Seconds())
			if len(rep.ForkSites) > 0 {
				type kv struct {
					k string
					n int
				}
				var kvs []kv
				for k, n := range rep.ForkSites {
					kvs = append(kvs, kv{k, n})
				}
				sort.Slice(kvs, func(i, j int) bool { return kvs[i].n > kvs[j].n })
				for i, e := range kvs {
					if i >= 15 {
						break
					}
					fmt.Printf("  fork-site %6d  %s\n", e.n, e.k)
				}
			}
			// completeness of the run at its bound
			bad := func(kind string, mm map[string]int) {
				for msg, n := range mm {
					short := msg
					lim := 400
					if os.Getenv("GOSYM_VERBOSE") != "" {
						lim = 4000
					}
					if len(short) > lim {
						short = short[:lim]
					}
					fmt.Printf("INCONCLUSIVE property=%s harness=%s %s x%d: %s\n", id, h.Entry, kind, n, short)
					inconclusive = append(inconclusive, h.Entry+" "+kind)
				}
			}
			bad("unsupported", rep.Unsupported)
			bad("unwinding-failure", rep.Unwind)
			bad("engine-error", rep.EngineErrors)
			if rep.Incomplete {
				fmt.Printf("INCONCLUSIVE property=%s harness=%s path budget or deadline exhausted after %d runs\n", id, h.Entry, rep.TotalRuns)
				inconclusive = append(inconclusive, h.Entry+" incomplete")
			}
			if rep.InconclVerd > 0 || rep.Queries.Errors > 0 {
				fmt.Printf("INCONCLUSIVE property=%s harness=%s %d verdict queries unknown, %d solver errors\n", id, h.Entry, rep.InconclVerd, rep.Queries.Errors)
				inconclusive = append(inconclusive, h.Entry+" solver")
			}
			if rep.StoppedEarly {
				fmt.Printf("harness %s/%s: exploration ended early, %d runs after its first violation\n", u.Name, h.Entry, opts.StopGraceRuns)
			}
			for _, l := range h.Reach {
				if !rep.Reached[l] && !rep.StoppedEarly {
					fmt.Printf("INCONCLUSIVE property=%s harness=%s reach marker %q never hit (vacuity)\n", id, h.Entry, l)
					inconclusive = append(inconclusive, h.Entry+" vacuity "+l)
				}
			}
			if h.Vacuity {
				if rep.ViolCount["vacuity"] == 0 {
					fmt.Printf("INCONCLUSIVE property=%s harness=%s vacuity twin did not fail\n", id, h.Entry)
					inconclusive = append(inconclusive, h.Entry+" vacuity twin")
				}
				delete(rep.Violations, "vacuity")
			}
			// samples: one witness per reach label, and scripts to validate natively
			for l, w := range rep.Witness {
				rs := replayScript{Property: id, Unit: u.Name, Entry: h.Entry, Label: "reach:" + l, Kind: "witness", Params: b.Params, Script: w, Env: u.Env, Tier: tier}
				if len(samples) < 12 {
					samples = append(samples, map[string]interface{}{"harness": h.Entry, "reached": l, "inputs": compactScript(w)})
				}
				{
					// (concurrent harnesses too: natively the Go scheduler picks some schedule; on a
					// tree where the property holds every schedule reaches the marker without a failed assertion)
					p := filepath.Join(replayDir, fmt.Sprintf("witness-%s-%s.json", h.Entry, sanitize(l)))
					writeJSON(p, rs)
					pending = append(pending, p)
					pendingInfo[p] = rs
					pendingWitness[p] = true
				}
			}
			var labels []string
			for l := range rep.Violations {
				labels = append(labels, l)
			}
			sort.Strings(labels)
			for _, l := range labels {
				vs := rep.Violations[l]
				v := vs[0]
				rs := replayScript{Property: id, Unit: u.Name, Entry: h.Entry, Label: v.Label, Kind: v.Kind, Msg: v.Msg, Params: b.Params, Script: v.Script, Env: u.Env, Sched: v.Sched, Trace: v.Trace, Tier: tier}
				p := filepath.Join(replayDir, fmt.Sprintf("%s-%s-%s.json", h.Entry, sanitize(v.Label), scriptHash(rs)))
				writeJSON(p, rs)
				if h.Concurrent || h.EngineConfirm || v.Kind == "deadlock" || v.Kind == "race" {
					// confirmed by concrete re-execution under the recorded schedule inside the engine
					ok := reexec(prog, opts, v)
					if !ok {
						fmt.Printf("UNCONFIRMED property=%s harness=%s label=%s (engine re-execution did not reproduce)\n", id, h.Entry, v.Label)
						unconfirmed++
						continue
					}
					validated++
					if k := isKnown(h.Entry, v.Label); k != nil && has(h.Demonstrates, v.Label) {
						knownLines = append(knownLines, fmt.Sprintf("KNOWN-FINDING: property=%s %s [harness=%s label=%s replay=%s]", id, k.What, h.Entry, v.Label, p))
						continue
					}
					fmt.Printf("VIOLATION property=%s replay=%s\n", id, p)
					fmt.Printf("  harness=%s label=%s kind=%s %s (%d paths)\n", h.Entry, v.Label, v.Kind, v.Msg, rep.ViolCount[l])
					violations++
					continue
				}
				// sequential: up to three counterexamples of the label are replayed natively; one confirmation suffices
				group := h.Entry + "\x00" + v.Label
				for vi, vv := range vs {
					rsi := rs
					rsi.Script, rsi.Msg, rsi.Kind = vv.Script, vv.Msg, vv.Kind
					pi := p
					if vi > 0 {
						pi = filepath.Join(replayDir, fmt.Sprintf("%s-%s-%s.json", h.Entry, sanitize(v.Label), scriptHash(rsi)))
						writeJSON(pi, rsi)
					}
					pending = append(pending, pi)
					pendingInfo[pi] = rsi
					pendingGroup[pi] = group
				}
			}
		}
		// native replays of this unit in one go test run
		if len(pending) > 0 {
			res, out, err := runNative(bu, pending)
			if err != nil {
				fmt.Printf("INCONCLUSIVE property=%s unit=%s native replay: %v\n", id, u.Name, err)
				inconclusive = append(inconclusive, "replay "+u.Name)
			}
			groupDone := map[string]bool{}
			for _, p := range pending {
				rs := pendingInfo[p]
				r, ok := res[p]
				if pendingWitness[p] {
					l := strings.TrimPrefix(rs.Label, "reach:")
					if ok && (r.Outcome == "ok" || r.Outcome == "script-exhausted") && (has(r.Reached, l) || r.Outcome == "script-exhausted") && len(r.Failed) == 0 {
						validated++
					} else if ok && (r.Outcome == "ok" || r.Outcome == "script-exhausted") && demonstratesAll(u, rs.Entry, r.Failed) {
						validated++
					} else {
						fmt.Printf("UNCONFIRMED property=%s witness %s/%s: native run outcome=%v (engine and real build disagree)\n", id, rs.Entry, l, r)
						unconfirmed++
					}
					os.Remove(p)
					continue
				}
				grp := pendingGroup[p]
				if groupDone[grp] {
					continue // another counterexample of this label was already confirmed
				}
				if !ok || !confirms(rs, r) {
					// is there another candidate of the same label still to come?
					more := false
					seenSelf := false
					for _, q := range pending {
						if q == p {
							seenSelf = true
							continue
						}
						if seenSelf && pendingGroup[q] == grp {
							more = true
						}
					}
					if more {
						continue
					}
					// the batch runs every script in one process: state a run leaves behind
					// (sync.Pool contents, package variables) can mask a counterexample, so each
					// candidate of the label is tried once more alone in a fresh process
					retried := false
					for _, q := range pending {
						if pendingGroup[q] != grp || retried {
							continue
						}
						if res1, _, err1 := runNative(bu, []string{q}); err1 == nil {
							if r1, ok1 := res1[q]; ok1 && confirms(pendingInfo[q], r1) {
								p, rs, r, ok, retried = q, pendingInfo[q], r1, true, true
							}
						}
					}
					if retried {
						goto confirmed
					}
					if !ok {
						fmt.Printf("UNCONFIRMED property=%s harness=%s label=%s: no native result\n%s\n", id, rs.Entry, rs.Label, tail(out, 30))
					} else {
						fmt.Printf("UNCONFIRMED property=%s harness=%s label=%s (engine: %s): native outcome=%s failed=%v msg=%s\n  inputs: %s\n", id, rs.Entry, rs.Label, rs.Msg, r.Outcome, r.Failed, r.Msg, compactScript(rs.Script))
					}
					unconfirmed++
					continue
				}
			confirmed:
				groupDone[grp] = true
				validated++
				var h *Harness
				for hi := range u.Harnesses {
					if u.Harnesses[hi].Entry == rs.Entry {
						h = &u.Harnesses[hi]
					}
				}
				if k := isKnown(rs.Entry, rs.Label); k != nil && h != nil && has(h.Demonstrates, rs.Label) {
					knownLines = append(knownLines, fmt.Sprintf("KNOWN-FINDING: property=%s %s [harness=%s label=%s replay=%s]", id, k.What, rs.Entry, rs.Label, p))
					continue
				}
				fmt.Printf("VIOLATION property=%s replay=%s\n", id, p)
				fmt.Printf("  harness=%s label=%s kind=%s native: outcome=%s failed=%v %s\n", rs.Entry, rs.Label, rs.Kind, r.Outcome, r.Failed, r.Msg)
				fmt.Printf("  inputs: %s\n", compactScript(rs.Script))
				violations++
			}
		}
	}
	for _, l := range knownLines {
		fmt.Println(l)
	}
	if unconfirmed > 0 {
		inconclusive = append(inconclusive, fmt.Sprintf("%d unconfirmed counterexamples/witnesses", unconfirmed))
	}
	if len(samples) == 0 {
		samples = append(samples, map[string]interface{}{"note": "no witness collected"})
	}
	// evidence
	if totalPaths < 1 {
		totalPaths = 1
	}
	if totalDecisions < 1 {
		totalDecisions = 1
	}
	ev := map[string]interface{}{
		"property_id": id,
		"tier":        tier,
		"seed":        seed,
		"level":       "model_checking",
		"wall_s":      time.Since(t0).Seconds(),
		"violations":  violations,
		"assumptions": assumptions,
		"coverage": map[string]interface{}{
			"states":                        totalPaths,
			"transitions":                   totalDecisions,
			"traces_validated_against_impl": validated,
			"samples":                       samples,
			"explanation":                   "bounded symbolic execution of the repository's SSA (go/ssa of /repo's working tree); states = completed symbolic paths, transitions = decisions taken on symbolic branches / schedule choices; every assertion is an SMT query PC∧¬property whose unsat answer covers all inputs of the path",
			"harnesses":                     hev,
			"bounds":                        spec.Bounds,
			"known_findings_reported":       knownLines,
			"unconfirmed":                   unconfirmed,
			"inconclusive":                  inconclusive,
			"solver":                        envOr("GOSYM_SOLVER", "z3"),
		},
	}
	os.MkdirAll(filepath.Join(verifDir, "evidence"), 0o755)
	writeJSON(filepath.Join(verifDir, "evidence", id+".json"), ev)
	switch {
	case violations > 0:
		fmt.Printf("RESULT property=%s tier=%s: %d violation(s)\n", id, tier, violations)
		return 1
	case len(inconclusive) > 0:
		fmt.Printf("RESULT property=%s tier=%s: INCONCLUSIVE (%s)\n", id, tier, strings.Join(inconclusive, "; "))
		return 2
	}
	fmt.Printf("RESULT property=%s tier=%s: holds within the stated bounds (%d paths, %d decisions, %d native validations, %.1fs)\n", id, tier, totalPaths, totalDecisions, validated, time.Since(t0).Seconds())
	return 0
}

// demonstratesAll: every failed label of the native run is one the harness is
// declared to demonstrate (a recorded finding).
func demonstratesAll(u *Unit, entry string, failed []string) bool {
	for hi := range u.Harnesses {
		if u.Harnesses[hi].Entry == entry {
			for _, f := range failed {
				if !has(u.Harnesses[hi].Demonstrates, f) {
					return false
				}
			}
			return true
		}
	}
	return false
}

// reexec re-runs the violating path concretely along its recorded decisions.
func reexec(prog *exec.Program, o exec.ExploreOpts, v exec.Violation) bool {
	ok, err := prog.Reexecute(o, v)
	if err != nil {
		fmt.Printf("  re-execution error: %v\n", err)
	}
	return ok
}

func repoFuncs(fs []exec.FuncStat) []exec.FuncStat {
	var out []exec.FuncStat
	for _, f := range fs {
		if strings.Contains(f.Name, "go.opentelemetry.io/otel") && !strings.Contains(f.Name, ".vnd") {
			out = append(out, f)
		}
	}
	return out
}

func compactScript(s []exec.InputRec) string {
	var sb strings.Builder
	for i, r := range s {
		if i > 0 {
			sb.WriteByte(' ')
		}
		switch r.Kind {
		case "u8":
			fmt.Fprintf(&sb, "%02x", r.Val)
		case "bool", "choice", "len", "param":
			fmt.Fprintf(&sb, "%s=%d", r.Kind, r.Val)
		case "int", "i64", "i32":
			fmt.Fprintf(&sb, "%s=%d", r.Kind, int64(r.Val))
		default:
			fmt.Fprintf(&sb, "%s=%#x", r.Kind, r.Val)
		}
		if sb.Len() > 600 {
			sb.WriteString(" …")
			break
		}
	}
	return sb.String()
}

func sanitize(s string) string {
	return regexp.MustCompile(`[^A-Za-z0-9_.-]`).ReplaceAllString(s, "_")
}

func tail(s string, n int) string {
	ls := strings.Split(s, "\n")
	if len(ls) > n {
		ls = ls[len(ls)-n:]
	}
	return strings.Join(ls, "\n")
}

func writeJSON(p string, v interface{}) {
	b, _ := json.MarshalIndent(v, "", " ")
	os.WriteFile(p, append(b, '\n'), 0o644)
}

// replay: native (sequential) or engine (concurrent) replay of a stored script.
func replay(path string) int {
	b, err := os.ReadFile(path)
	if err != nil {
		fmt.Println("cannot read", path, err)
		return 2
	}
	var rs replayScript
	if err := json.Unmarshal(b, &rs); err != nil {
		fmt.Println("bad script:", err)
		return 2
	}
	if rs.Kind == "literal" {
		fmt.Println(rs.Msg)
		return 1
	}
	spec, specDir, err := loadSpec(rs.Property)
	if err != nil {
		fmt.Println(err)
		return 2
	}
	for ui := range spec.Units {
		u := &spec.Units[ui]
		if u.Name != rs.Unit {
			continue
		}
		bu, err := buildUnit(u, specDir)
		if err != nil {
			fmt.Println(err)
			return 2
		}
		engineConfirm := false
		for hi := range u.Harnesses {
			if u.Harnesses[hi].Entry == rs.Entry && (u.Harnesses[hi].EngineConfirm || u.Harnesses[hi].Concurrent) {
				engineConfirm = true
			}
		}
		if rs.Kind == "deadlock" || rs.Kind == "race" || len(rs.Sched) > 0 || engineConfirm {
			var h *Harness
			for hi := range u.Harnesses {
				if u.Harnesses[hi].Entry == rs.Entry {
					h = &u.Harnesses[hi]
				}
			}
			if h == nil {
				fmt.Println("no such harness", rs.Entry)
				return 2
			}
			tier := rs.Tier
			if tier == "" {
				tier = "quick"
			}
			bnd := tierOf(h, tier)
			prog, err := exec.Load(exec.Config{Dir: filepath.Join(repoDir, u.Dir), Pkg: u.Pkg, Overlay: bu.engine,
				Redirects: u.Redirects, Noops: u.Noops, Merges: u.Merges, DenyInit: u.DenyInit, Env: u.Env, LenientSprintf: u.LenientFmt, Workers: 1, TimeoutMS: bnd.TimeoutS * 1000})
			if err != nil {
				fmt.Println(err)
				return 2
			}
			opts := exec.ExploreOpts{Entry: h.Entry, Alloc: bnd.Alloc, Limits: exec.Limits{MaxSteps: bnd.MaxSteps, Preemptions: bnd.Preemptions, TimerFires: bnd.TimerFires, TimerHorizonNS: int64(bnd.HorizonMS) * 1e6, Params: rs.Params}}
			ok := reexec(prog, opts, exec.Violation{Harness: rs.Entry, Label: rs.Label, Kind: rs.Kind, Trace: rs.Trace})
			if ok {
				fmt.Printf("REPRODUCED (engine re-execution under the recorded schedule) property=%s harness=%s label=%s %s\n", rs.Property, rs.Entry, rs.Label, rs.Msg)
				return 1
			}
			fmt.Println("not reproduced")
			return 0
		}
		res, out, err := runNative(bu, []string{path})
		if err != nil {
			fmt.Println(err)
			return 2
		}
		r, ok := res[path]
		if !ok {
			fmt.Println("no result from native run:\n" + tail(out, 40))
			return 2
		}
		fmt.Printf("native outcome=%s failed=%v reached=%v msg=%s\n", r.Outcome, r.Failed, r.Reached, r.Msg)
		if confirms(rs, r) {
			fmt.Printf("REPRODUCED property=%s harness=%s label=%s inputs: %s\n", rs.Property, rs.Entry, rs.Label, compactScript(rs.Script))
			return 1
		}
		fmt.Println("not reproduced")
		return 0
	}
	fmt.Println("unit not found:", rs.Unit)
	return 2
}

func main() {
	if pf := os.Getenv("GOSYM_PROF"); pf != "" {
		f, _ := os.Create(pf)
		pprof.StartCPUProfile(f)
		defer pprof.StopCPUProfile()
	}
	code := realMain()
	pprof.StopCPUProfile()
	os.Exit(code)
}

func realMain() int {
	if len(os.Args) < 2 {
		fmt.Println("usage: gosym check <id> <tier> | replay <script> | selftest")
		return 2
	}
	switch os.Args[1] {
	case "check":
		tier := "quick"
		if len(os.Args) > 3 {
			tier = os.Args[3]
		}
		if t := os.Getenv("VERIF_TIER"); t == "quick" || t == "thorough" {
			tier = t
		}
		return check(os.Args[2], tier)
	case "replay":
		return replay(os.Args[2])
	default:
		fmt.Println("unknown command", os.Args[1])
		return 2
	}
}
