package exec

// Intrinsics: functions the engine implements itself because they are
// assembly-backed, use unsafe/reflection, belong to the environment, or are
// synchronisation primitives owned by the controlled scheduler.

import (
	"fmt"
	"go/token"
	"go/types"
	"math"
	"strings"
	"unsafe"

	"golang.org/x/tools/go/ssa"
)

type externalFn func(fr *frame, args []value) value

// Key strings are from funcKey (Function.String() of the generic origin).
var externals = make(map[string]externalFn)

func init() {
	for k, v := range map[string]externalFn{
		// reflect (fake package, see reflect.go)
		"(reflect.Value).Bool":         ext۰reflect۰Value۰Bool,
		"(reflect.Value).CanAddr":      ext۰reflect۰Value۰CanAddr,
		"(reflect.Value).CanInterface": ext۰reflect۰Value۰CanInterface,
		"(reflect.Value).Elem":         ext۰reflect۰Value۰Elem,
		"(reflect.Value).Field":        ext۰reflect۰Value۰Field,
		"(reflect.Value).Float":        ext۰reflect۰Value۰Float,
		"(reflect.Value).Index":        ext۰reflect۰Value۰Index,
		"(reflect.Value).Int":          ext۰reflect۰Value۰Int,
		"(reflect.Value).Interface":    ext۰reflect۰Value۰Interface,
		"(reflect.Value).IsNil":        ext۰reflect۰Value۰IsNil,
		"(reflect.Value).IsValid":      ext۰reflect۰Value۰IsValid,
		"(reflect.Value).Kind":         ext۰reflect۰Value۰Kind,
		"(reflect.Value).Len":          ext۰reflect۰Value۰Len,
		"(reflect.Value).NumField":     ext۰reflect۰Value۰NumField,
		"(reflect.Value).NumMethod":    ext۰reflect۰Value۰NumMethod,
		"(reflect.Value).Pointer":      ext۰reflect۰Value۰Pointer,
		"(reflect.Value).Set":          ext۰reflect۰Value۰Set,
		"(reflect.Value).String":       ext۰reflect۰Value۰String,
		"(reflect.Value).Type":         ext۰reflect۰Value۰Type,
		"(reflect.Value).Uint":         ext۰reflect۰Value۰Uint,
		"(reflect.Value).Addr":         ext۰reflect۰Value۰Addr,
		"(reflect.Value).Slice":        ext۰reflect۰Value۰Slice,
		"(reflect.error).Error":        ext۰reflect۰error۰Error,
		"(reflect.rtype).Bits":         ext۰reflect۰rtype۰Bits,
		"(reflect.rtype).Elem":         ext۰reflect۰rtype۰Elem,
		"(reflect.rtype).Field":        ext۰reflect۰rtype۰Field,
		"(reflect.rtype).In":           ext۰reflect۰rtype۰In,
		"(reflect.rtype).Kind":         ext۰reflect۰rtype۰Kind,
		"(reflect.rtype).NumField":     ext۰reflect۰rtype۰NumField,
		"(reflect.rtype).NumIn":        ext۰reflect۰rtype۰NumIn,
		"(reflect.rtype).NumMethod":    ext۰reflect۰rtype۰NumMethod,
		"(reflect.rtype).NumOut":       ext۰reflect۰rtype۰NumOut,
		"(reflect.rtype).Out":          ext۰reflect۰rtype۰Out,
		"(reflect.rtype).Size":         ext۰reflect۰rtype۰Size,
		"(reflect.rtype).String":       ext۰reflect۰rtype۰String,
		"(reflect.rtype).Name":         ext۰reflect۰rtype۰Name,
		"(reflect.rtype).PkgPath":      ext۰reflect۰rtype۰PkgPath,
		"(reflect.rtype).Len":          ext۰reflect۰rtype۰Len,
		"(reflect.rtype).Comparable":   ext۰reflect۰rtype۰Comparable,
		"reflect.New":                  ext۰reflect۰New,
		"reflect.SliceOf":              ext۰reflect۰SliceOf,
		"reflect.ArrayOf":              ext۰reflect۰ArrayOf,
		"reflect.Copy":                 ext۰reflect۰Copy,
		"reflect.TypeOf":               ext۰reflect۰TypeOf,
		"internal/reflectlite.TypeOf":  ext۰reflect۰TypeOf,
		"internal/reflectlite.ValueOf": ext۰reflect۰ValueOf,
		"reflect.ValueOf":              ext۰reflect۰ValueOf,
		"reflect.Zero":                 ext۰reflect۰Zero,
		"reflect.Indirect":             ext۰reflect۰Indirect,
		"reflect.NewAt":                ext۰reflect۰NewAt,
		"(reflect.Value).FieldByName":  ext۰reflect۰Value۰FieldByName,
		"(reflect.Value).UnsafeAddr":   ext۰reflect۰Value۰UnsafeAddr,

		// math
		"math.Float32bits":     extFloat32bits,
		"math.Float32frombits": extFloat32frombits,
		"math.Float64bits":     extFloat64bits,
		"math.Float64frombits": extFloat64frombits,
		"math.Abs":             extAbs,
		"math.Log":             concreteF1("math.Log", math.Log),
		"math.Log2":            concreteF1("math.Log2", math.Log2),
		"math.Log10":           concreteF1("math.Log10", math.Log10),
		"math.Exp":             concreteF1("math.Exp", math.Exp),
		"math.Sqrt":            concreteF1("math.Sqrt", math.Sqrt),
		"math.Floor":           concreteF1("math.Floor", math.Floor),
		"math.Ceil":            concreteF1("math.Ceil", math.Ceil),
		"math.Trunc":           concreteF1("math.Trunc", math.Trunc),
		"math.Frexp":           extFrexp,
		"math.Ldexp":           extLdexp,

		// byte scanning kernels
		"internal/bytealg.IndexByte":                extIndexByte,
		"internal/bytealg.IndexByteString":          extIndexByte,
		"internal/bytealg.Count":                    extCountByte,
		"internal/bytealg.CountString":              extCountByte,
		"internal/bytealg.Equal":                    extBytesEqual,
		"internal/bytealg.Compare":                  extBytesCompare,
		"internal/bytealg.MakeNoZero":               extMakeNoZero,
		"internal/bytealg.Index":                    extIndexSub,
		"internal/bytealg.IndexString":              extIndexSub,
		"bytes.Equal":                               extBytesEqual,
		"internal/abi.NoEscape":                     func(fr *frame, a []value) value { return a[0] },
		"internal/abi.Escape":                       func(fr *frame, a []value) value { return a[0] },
		"runtime.KeepAlive":                         func(fr *frame, a []value) value { return nil },
		"runtime.GC":                                func(fr *frame, a []value) value { return nil },
		"runtime.Gosched":                           func(fr *frame, a []value) value { fr.i.schedPoint("gosched"); return nil },
		"runtime.NumCPU":                            func(fr *frame, a []value) value { return 1 },
		"runtime.GOMAXPROCS":                        func(fr *frame, a []value) value { return 1 },
		"runtime.SetFinalizer":                      func(fr *frame, a []value) value { return nil },
		"runtime.Stack":                             func(fr *frame, a []value) value { return 0 },
		"runtime.Callers":                           func(fr *frame, a []value) value { return 0 },
		"runtime.Caller":                            func(fr *frame, a []value) value { return tuple{uintptr(0), "", 0, false} },
		"runtime/debug.SetGCPercent":                func(fr *frame, a []value) value { return 100 },
		"internal/godebug.(*Setting).Value":         func(fr *frame, a []value) value { return "" },
		"internal/godebug.(*Setting).IncNonDefault": func(fr *frame, a []value) value { return nil },
		"unicode/utf8.DecodeRuneInString":           extDecodeRune,
		"unicode/utf8.DecodeRune":                   extDecodeRune,

		// os / syscall start-up
		"syscall.runtime_envs": func(fr *frame, a []value) value { return []value{} },
		"os.runtime_args":      func(fr *frame, a []value) value { return []value{"gosym"} },
		"os.NewFile":           extOsNewFile,
		"os.Getpagesize":       func(fr *frame, a []value) value { return 4096 },
		"os.Getenv":            extGetenv,
		"os.LookupEnv":         extLookupEnv,
		"os.Exit":              func(fr *frame, a []value) value { panic(targetRuntimeError("os.Exit called")) },

		// errors / fmt
		"errors.Is":             extErrorsIs,
		"errors.As":             extErrorsAs,
		"errors.Join":           nil,
		"fmt.Errorf":            extErrorf,
		"fmt.Sprintf":           extSprintf,
		"fmt.Sprint":            extSprint,
		"fmt.Println":           func(fr *frame, a []value) value { return tuple{0, iface{}} },
		"fmt.Printf":            func(fr *frame, a []value) value { return tuple{0, iface{}} },
		"fmt.Fprintf":           func(fr *frame, a []value) value { return tuple{0, iface{}} },
		"fmt.Fprintln":          func(fr *frame, a []value) value { return tuple{0, iface{}} },
		"fmt.Fprint":            func(fr *frame, a []value) value { return tuple{0, iface{}} },
		"log.Printf":            func(fr *frame, a []value) value { return nil },
		"log.Println":           func(fr *frame, a []value) value { return nil },
		"log.Print":             func(fr *frame, a []value) value { return nil },
		"(*log.Logger).Printf":  func(fr *frame, a []value) value { return nil },
		"(*log.Logger).Println": func(fr *frame, a []value) value { return nil },
		"(*log.Logger).Print":   func(fr *frame, a []value) value { return nil },
		"(*log.Logger).Output":  func(fr *frame, a []value) value { return iface{} },

		// sync
		"(*sync.Mutex).Lock":                  extMutexLock,
		"(*sync.Mutex).Unlock":                extMutexUnlock,
		"(*sync.Mutex).TryLock":               extMutexTryLock,
		"(*sync.RWMutex).Lock":                extRWLock,
		"(*sync.RWMutex).Unlock":              extRWUnlock,
		"(*sync.RWMutex).RLock":               extRWRLock,
		"(*sync.RWMutex).RUnlock":             extRWRUnlock,
		"(*sync.WaitGroup).Add":               extWGAdd,
		"(*sync.WaitGroup).Done":              extWGDone,
		"(*sync.WaitGroup).Wait":              extWGWait,
		"(*sync.Pool).Get":                    extPoolGet,
		"(*sync.Pool).Put":                    func(fr *frame, a []value) value { return nil },
		"(*sync/atomic.Value).Load":           extAVLoad,
		"(*sync/atomic.Value).Store":          extAVStore,
		"(*sync/atomic.Value).Swap":           extAVSwap,
		"(*sync/atomic.Value).CompareAndSwap": extAVCas,

		// time
		"time.Now":             extTimeNow,
		"time.Since":           extTimeSince,
		"time.Until":           extTimeUntil,
		"time.Sleep":           extTimeSleep,
		"time.NewTimer":        extNewTimer,
		"time.NewTicker":       extNewTicker,
		"time.After":           extTimeAfter,
		"time.AfterFunc":       extAfterFunc,
		"(*time.Timer).Stop":   extTimerStop,
		"(*time.Timer).Reset":  extTimerReset,
		"(*time.Ticker).Stop":  extTimerStop,
		"(*time.Ticker).Reset": extTimerReset,
		"time.runtimeNano":     func(fr *frame, a []value) value { return fr.i.clockNow() },
	} {
		if v != nil {
			externals[k] = v
		}
	}
	for _, ty := range []string{"Int32", "Int64", "Uint32", "Uint64", "Uintptr", "Pointer"} {
		externals["sync/atomic.Load"+ty] = extAtomicLoad
		externals["sync/atomic.Store"+ty] = extAtomicStore
		externals["sync/atomic.Swap"+ty] = extAtomicSwap
		externals["sync/atomic.CompareAndSwap"+ty] = extAtomicCas
		if ty != "Pointer" {
			externals["sync/atomic.Add"+ty] = extAtomicAdd
			externals["sync/atomic.And"+ty] = extAtomicAndOr(true)
			externals["sync/atomic.Or"+ty] = extAtomicAndOr(false)
		}
	}
}

// ---- math

func extFloat64bits(fr *frame, a []value) value {
	m := fr.i
	switch x := a[0].(type) {
	case float64:
		return math.Float64bits(x)
	case *Term:
		if x.Op == "fp_from_bits" {
			return x.Args[0]
		}
		// fresh bits b with to_fp(b) = x (NaN payload left free)
		b := m.auxVar(bvSort(64))
		m.addAux(m.tt.Eq(m.tt.FPFromBits(b), x))
		return b
	}
	panic("Float64bits")
}

func extFloat64frombits(fr *frame, a []value) value {
	switch x := a[0].(type) {
	case uint64:
		return math.Float64frombits(x)
	case *Term:
		return fromTerm(fr.i.tt.FPFromBits(x), types.Typ[types.Float64])
	}
	panic("Float64frombits")
}

func extFloat32bits(fr *frame, a []value) value {
	m := fr.i
	switch x := a[0].(type) {
	case float32:
		return math.Float32bits(x)
	case *Term:
		if x.Op == "fp_from_bits" {
			return x.Args[0]
		}
		b := m.auxVar(bvSort(32))
		m.addAux(m.tt.Eq(m.tt.FPFromBits(b), x))
		return b
	}
	panic("Float32bits")
}

func extFloat32frombits(fr *frame, a []value) value {
	switch x := a[0].(type) {
	case uint32:
		return math.Float32frombits(x)
	case *Term:
		return fromTerm(fr.i.tt.FPFromBits(x), types.Typ[types.Float32])
	}
	panic("Float32frombits")
}

func extAbs(fr *frame, a []value) value {
	switch x := a[0].(type) {
	case float64:
		return math.Abs(x)
	case *Term:
		return fromTerm(fr.i.tt.FPAbs(x), types.Typ[types.Float64])
	}
	panic("Abs")
}

func concreteF1(name string, f func(float64) float64) externalFn {
	return func(fr *frame, a []value) value {
		if x, ok := a[0].(float64); ok {
			return f(x)
		}
		unsupported("%s on a symbolic argument", name)
		return nil
	}
}

// auxVar makes an auxiliary solver variable that is not a harness input.
func (m *Machine) auxVar(s Sort) *Term {
	m.ps.nvars++
	return m.tt.Var(fmt.Sprintf("aux%d_%d", len(m.ps.inputs), m.ps.nvars), s)
}

// addAux adds a defining constraint of an auxiliary variable to the path
// condition (always satisfiable, so no query is needed).
func (m *Machine) addAux(c *Term) {
	m.addPC(c)
}

// ---- byte kernels on possibly symbolic bytes

func bytesOf(v value) []value {
	switch v := v.(type) {
	case []value:
		return v
	case string:
		return strBytes(v)
	case symstr:
		return []value(v)
	}
	panic(fmt.Sprintf("bytesOf %T", v))
}

func extIndexByte(fr *frame, a []value) value {
	m := fr.i
	b := bytesOf(a[0])
	c := a[1]
	for i, e := range b {
		if m.truth(m.byteEq(e, c)) {
			return i
		}
	}
	return -1
}

func extCountByte(fr *frame, a []value) value {
	m := fr.i
	b := bytesOf(a[0])
	c := a[1]
	n := 0
	for _, e := range b {
		if m.truth(m.byteEq(e, c)) {
			n++
		}
	}
	return n
}

func extBytesEqual(fr *frame, a []value) value {
	m := fr.i
	x, y := bytesOf(a[0]), bytesOf(a[1])
	if len(x) != len(y) {
		return false
	}
	var acc value = true
	for i := range x {
		acc = m.andV(acc, m.byteEq(x[i], y[i]))
		if acc == false {
			return false
		}
	}
	return acc
}

func extBytesCompare(fr *frame, a []value) value {
	m := fr.i
	x, y := normStr(bytesOf(a[0])), normStr(bytesOf(a[1]))
	if m.truth(m.strEq(x, y)) {
		return 0
	}
	if m.truth(m.strLess(x, y, false)) {
		return -1
	}
	return 1
}

func extMakeNoZero(fr *frame, a []value) value {
	n := int(asInt64(a[0]))
	b := make([]value, n)
	for i := range b {
		b[i] = uint8(0)
	}
	return b
}

func extIndexSub(fr *frame, a []value) value {
	m := fr.i
	s, sub := bytesOf(a[0]), bytesOf(a[1])
	for i := 0; i+len(sub) <= len(s); i++ {
		var acc value = true
		for j := range sub {
			acc = m.andV(acc, m.byteEq(s[i+j], sub[j]))
			if acc == false {
				break
			}
		}
		if m.truth(acc) {
			return i
		}
	}
	return -1
}

func extDecodeRune(fr *frame, a []value) value {
	r, n := fr.i.decodeRune(bytesOf(a[0]))
	return tuple{r, n}
}

// ---- os environment (model)

func extGetenv(fr *frame, a []value) value {
	k, ok := a[0].(string)
	if !ok {
		unsupported("os.Getenv with a symbolic key")
	}
	if v, ok := fr.i.env[k]; ok {
		return v
	}
	return ""
}

func extLookupEnv(fr *frame, a []value) value {
	k, ok := a[0].(string)
	if !ok {
		unsupported("os.LookupEnv with a symbolic key")
	}
	if v, ok := fr.i.env[k]; ok {
		return tuple{v, true}
	}
	return tuple{"", false}
}

// ---- struct field helpers for intrinsics on library types

func fieldIndex(t types.Type, name string) int {
	st := t.Underlying().(*types.Struct)
	for i := 0; i < st.NumFields(); i++ {
		if st.Field(i).Name() == name {
			return i
		}
	}
	panic(fmt.Sprintf("no field %s in %v", name, t))
}

// fieldPtr follows a path of field names from a pointer to a struct of type t.
func fieldPtr(p *value, t types.Type, names ...string) (*value, types.Type) {
	for _, n := range names {
		i := fieldIndex(t, n)
		p = &(*p).(structure)[i]
		t = t.Underlying().(*types.Struct).Field(i).Type()
	}
	return p, t
}

func recvStructType(fr *frame) types.Type {
	return mustDeref(fr.fn.Signature.Recv().Type())
}

func nilCheck(p value) *value {
	a := p.(*value)
	if a == nil {
		panic(targetRuntimeError("invalid memory address or nil pointer dereference"))
	}
	return a
}

// ---- sync.Mutex: state field 0 = unlocked, 1 = locked

func mutexState(p *value, t types.Type) *value {
	sp, _ := fieldPtr(p, t, "state")
	return sp
}

func (m *Machine) lockCell(st *value, key interface{}, what string) {
	m.schedPoint(what)
	for (*st).(int32) != 0 {
		m.block(what, func() bool { return (*st).(int32) == 0 })
	}
	m.setCell(st, int32(1))
	m.hbAcquire(key)
}

func (m *Machine) unlockCell(st *value, key interface{}, what string) {
	m.schedPoint(what)
	if (*st).(int32) == 0 {
		panic(targetRuntimeError("sync: unlock of unlocked mutex"))
	}
	m.hbRelease(key)
	m.setCell(st, int32(0))
}

func extMutexLock(fr *frame, a []value) value {
	p := nilCheck(a[0])
	fr.i.lockCell(mutexState(p, recvStructType(fr)), p, "Mutex.Lock")
	return nil
}

func extMutexUnlock(fr *frame, a []value) value {
	p := nilCheck(a[0])
	fr.i.unlockCell(mutexState(p, recvStructType(fr)), p, "Mutex.Unlock")
	return nil
}

func extMutexTryLock(fr *frame, a []value) value {
	m := fr.i
	p := nilCheck(a[0])
	st := mutexState(p, recvStructType(fr))
	m.schedPoint("Mutex.TryLock")
	if (*st).(int32) != 0 {
		return false
	}
	m.setCell(st, int32(1))
	m.hbAcquire(p)
	return true
}

// ---- sync.RWMutex: w.state = 1 while a writer holds it, readerSem = #readers

func rwCells(fr *frame, p *value) (w *value, readers *value) {
	t := recvStructType(fr)
	w, _ = fieldPtr(p, t, "w", "state")
	readers, _ = fieldPtr(p, t, "readerSem")
	return
}

func extRWLock(fr *frame, a []value) value {
	m := fr.i
	p := nilCheck(a[0])
	w, r := rwCells(fr, p)
	m.schedPoint("RWMutex.Lock")
	free := func() bool { return (*w).(int32) == 0 && (*r).(uint32) == 0 }
	for !free() {
		m.block("RWMutex.Lock", free)
	}
	m.setCell(w, int32(1))
	m.hbAcquire(p)
	return nil
}

func extRWUnlock(fr *frame, a []value) value {
	m := fr.i
	p := nilCheck(a[0])
	w, _ := rwCells(fr, p)
	m.schedPoint("RWMutex.Unlock")
	if (*w).(int32) == 0 {
		panic(targetRuntimeError("sync: Unlock of unlocked RWMutex"))
	}
	m.hbRelease(p)
	m.setCell(w, int32(0))
	return nil
}

func extRWRLock(fr *frame, a []value) value {
	m := fr.i
	p := nilCheck(a[0])
	w, r := rwCells(fr, p)
	m.schedPoint("RWMutex.RLock")
	free := func() bool { return (*w).(int32) == 0 }
	for !free() {
		m.block("RWMutex.RLock", free)
	}
	m.setCell(r, (*r).(uint32)+1)
	m.hbAcquire(p)
	return nil
}

func extRWRUnlock(fr *frame, a []value) value {
	m := fr.i
	p := nilCheck(a[0])
	_, r := rwCells(fr, p)
	m.schedPoint("RWMutex.RUnlock")
	if (*r).(uint32) == 0 {
		panic(targetRuntimeError("sync: RUnlock of unlocked RWMutex"))
	}
	m.hbRelease(p)
	m.setCell(r, (*r).(uint32)-1)
	return nil
}

// ---- sync.WaitGroup: state.v holds the counter

func wgCounter(fr *frame, p *value) *value {
	c, _ := fieldPtr(p, recvStructType(fr), "state", "v")
	return c
}

func extWGAdd(fr *frame, a []value) value {
	m := fr.i
	p := nilCheck(a[0])
	c := wgCounter(fr, p)
	m.schedPoint("WaitGroup.Add")
	n := int64((*c).(uint64)) + asInt64(a[1])
	if n < 0 {
		panic(targetRuntimeError("sync: negative WaitGroup counter"))
	}
	m.hbRelease(p)
	m.setCell(c, uint64(n))
	return nil
}

func extWGDone(fr *frame, a []value) value {
	return extWGAdd(fr, []value{a[0], -1})
}

func extWGWait(fr *frame, a []value) value {
	m := fr.i
	p := nilCheck(a[0])
	c := wgCounter(fr, p)
	m.schedPoint("WaitGroup.Wait")
	zero := func() bool { return (*c).(uint64) == 0 }
	for !zero() {
		m.block("WaitGroup.Wait", zero)
	}
	m.hbAcquire(p)
	return nil
}

// ---- sync.Pool

func extPoolGet(fr *frame, a []value) value {
	p := nilCheck(a[0])
	nf, _ := fieldPtr(p, recvStructType(fr), "New")
	f := *nf
	switch f := f.(type) {
	case *ssa.Function:
		if f == nil {
			return iface{}
		}
	case *closure:
		if f == nil {
			return iface{}
		}
	}
	return call(fr.i, fr, 0, f, nil)
}

// ---- sync/atomic

func atomicCell(m *Machine, a value, what string) *value {
	p := nilCheck(a)
	m.schedPoint(what)
	return p
}

func extAtomicLoad(fr *frame, a []value) value {
	m := fr.i
	p := atomicCell(m, a[0], "atomic.Load")
	m.hbAcquire(p)
	return *p
}

func extAtomicStore(fr *frame, a []value) value {
	m := fr.i
	p := atomicCell(m, a[0], "atomic.Store")
	m.hbRelease(p)
	m.setCell(p, a[1])
	return nil
}

func extAtomicSwap(fr *frame, a []value) value {
	m := fr.i
	p := atomicCell(m, a[0], "atomic.Swap")
	m.hbAcquire(p)
	m.hbRelease(p)
	old := *p
	m.setCell(p, a[1])
	return old
}

func extAtomicCas(fr *frame, a []value) value {
	m := fr.i
	p := atomicCell(m, a[0], "atomic.CompareAndSwap")
	m.hbAcquire(p)
	t := fr.fn.Signature.Params().At(1).Type()
	if m.truth(m.equalsV(t, *p, a[1])) {
		m.hbRelease(p)
		m.setCell(p, a[2])
		return true
	}
	return false
}

func extAtomicAdd(fr *frame, a []value) value {
	m := fr.i
	p := atomicCell(m, a[0], "atomic.Add")
	m.hbAcquire(p)
	m.hbRelease(p)
	t := fr.fn.Signature.Params().At(1).Type()
	n := m.binop(token.ADD, t, *p, a[1], t)
	m.setCell(p, n)
	return n
}

func extAtomicAndOr(and bool) externalFn {
	return func(fr *frame, a []value) value {
		m := fr.i
		p := atomicCell(m, a[0], "atomic.And/Or")
		m.hbAcquire(p)
		m.hbRelease(p)
		t := fr.fn.Signature.Params().At(1).Type()
		old := *p
		var n value
		if and {
			n = m.binop(token.AND, t, old, a[1], t)
		} else {
			n = m.binop(token.OR, t, old, a[1], t)
		}
		m.setCell(p, n)
		return old
	}
}

// atomic.Value: the struct's single field v holds the interface value.
func avCell(fr *frame, a value) *value {
	p := nilCheck(a)
	fr.i.schedPoint("atomic.Value")
	c, _ := fieldPtr(p, recvStructType(fr), "v")
	return c
}

func extAVLoad(fr *frame, a []value) value {
	c := avCell(fr, a[0])
	fr.i.hbAcquire(c)
	return *c
}

func extAVStore(fr *frame, a []value) value {
	m := fr.i
	c := avCell(fr, a[0])
	nv := a[1].(iface)
	if nv.t == nil {
		panic(targetPanic{iface{types.Typ[types.String], "sync/atomic: store of nil value into Value"}})
	}
	if old := (*c).(iface); old.t != nil && !types.Identical(old.t, nv.t) {
		panic(targetPanic{iface{types.Typ[types.String], "sync/atomic: store of inconsistently typed value into Value"}})
	}
	m.hbRelease(c)
	m.setCell(c, nv)
	return nil
}

func extAVSwap(fr *frame, a []value) value {
	m := fr.i
	c := avCell(fr, a[0])
	nv := a[1].(iface)
	if nv.t == nil {
		panic(targetPanic{iface{types.Typ[types.String], "sync/atomic: swap of nil value into Value"}})
	}
	old := *c
	m.hbAcquire(c)
	m.hbRelease(c)
	m.setCell(c, nv)
	return old
}

func extAVCas(fr *frame, a []value) value {
	m := fr.i
	c := avCell(fr, a[0])
	m.hbAcquire(c)
	anyT := types.NewInterfaceType(nil, nil)
	if m.truth(m.equalsV(anyT, *c, a[1])) {
		m.hbRelease(c)
		m.setCell(c, a[2])
		return true
	}
	return false
}

var _ = strings.HasPrefix
var _ = unsafe.Pointer(nil)

// os.NewFile: an opaque *os.File (never read or written by the engine: all
// output functions are stubs)
func extOsNewFile(fr *frame, a []value) value {
	m := fr.i
	p := m.prog.ImportedPackage("os")
	if p == nil {
		return (*value)(nil)
	}
	t := p.Type("File").Type()
	cell := new(value)
	*cell = zero(t)
	return cell
}
