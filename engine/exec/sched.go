package exec

// Controlled scheduler: interpreted goroutines are real goroutines that run
// one at a time under a baton. Every synchronisation operation is a switch
// point; each scheduling choice is a decision of the path search.

import (
	"fmt"
	"go/token"
	"go/types"
	"runtime/debug"

	"golang.org/x/tools/go/ssa"
)

const spinYieldAfter = 48

type thread struct {
	lastRun  int
	streak   int
	id       int
	wake     chan struct{}
	done     bool
	blocked  bool
	started  bool
	abort    bool // unwind when next woken
	vc       vclock
	waiter   *waiter // what the thread is blocked on (channels)
	cond     func() bool
	what     string
	finished chan struct{}
	daemon   bool
}

type waiter struct {
	thr    *thread
	fired  bool
	caseIx int
	val    value
	ok     bool
	panicS string
	// registrations (for select): channel + direction, removed when fired
	regs []waitReg
}

type waitReg struct {
	ch     *channel
	send   bool
	val    value
	caseIx int
}

type channel struct {
	buf    []value
	capa   int
	closed bool
	elemT  types.Type
	recvq  []*waitReg
	sendq  []*waitReg
	owner  map[*waitReg]*waiter
	vc     vclock
	id     int
}

func (c *channel) capacity() int {
	if c == nil {
		return 0
	}
	return c.capa
}

type vtimer struct {
	ch       *channel // nil for AfterFunc timers
	fn       value    // AfterFunc callback
	active   bool
	periodic bool
	obj      *value // the time.Timer / Ticker struct
	id       int
	when     value // deadline (clock units), informational
	dur      int64 // duration it was armed with, 0 when not concrete
	armedAt  int64 // concrete clock reading when it was armed, -1 when unknown
}

type scheduler struct {
	m           *Machine
	threads     []*thread
	cur         *thread
	preemptions int
	fires       int
	timers      []*vtimer
	pending     interface{} // abort raised on a non-main thread
	lastOp      string      // last synchronisation operation reached (for the schedule log)
	nchan       int
	switches    int
	sched       []int64 // schedule choices taken (informational)
	multi       bool    // more than one thread has existed on this path
	shadow      map[*value]*shadowCell
	objShadow   map[interface{}]*shadowCell
	syncVC      map[interface{}]vclock
	raceOn      bool
}

func (m *Machine) curThread() *thread {
	if m.sched == nil {
		return nil
	}
	return m.sched.cur
}

// runMain runs the harness entry on the calling goroutine as thread 0.
func (m *Machine) runMain(fn value) {
	s := &scheduler{m: m, shadow: map[*value]*shadowCell{}, objShadow: map[interface{}]*shadowCell{}, syncVC: map[interface{}]vclock{}}
	m.sched = s
	main := &thread{id: 0, wake: make(chan struct{}, 1), started: true, finished: make(chan struct{})}
	main.vc = vclock{1}
	s.threads = []*thread{main}
	s.cur = main
	func() {
		defer func() {
			if r := recover(); r != nil {
				switch r := r.(type) {
				case pathAbort:
					panic(r)
				case targetPanic, targetRuntimeError:
					m.reportTargetPanic(r)
				default:
					panic(pathAbort{abEngine, fmt.Sprintf("%v\n%s", r, debug.Stack())})
				}
			}
		}()
		call(m, nil, token.NoPos, fn, nil)
	}()
}

// endPathThreads unwinds every goroutine still parked when the path ends.
func (m *Machine) endPathThreads() {
	s := m.sched
	if s == nil {
		return
	}
	for _, t := range s.threads {
		if t.id == 0 || t.done {
			continue
		}
		t.abort = true
		if !t.started {
			t.started = true
		}
		t.wake <- struct{}{}
		<-t.finished
	}
	m.sched = nil
}

// spawn implements the go statement.
func (m *Machine) spawn(fr *frame, pos token.Pos, fn value, args []value) {
	s := m.sched
	if s == nil || m.ps == nil {
		unsupported("go statement outside a path (package init)")
	}
	if len(s.threads) > 64 {
		panic(pathAbort{abUnwind, "more than 64 goroutines"})
	}
	t := &thread{id: len(s.threads), wake: make(chan struct{}, 1), finished: make(chan struct{})}
	s.threads = append(s.threads, t)
	s.multi = true
	// happens-before: go statement -> start of goroutine
	parent := s.cur
	t.vc = parent.vc.copy()
	t.vc = t.vc.tick(t.id)
	parent.vc = parent.vc.tick(parent.id)
	go func() {
		defer close(t.finished)
		<-t.wake
		if t.abort {
			t.done = true
			return
		}
		t.started = true
		defer func() {
			r := recover()
			t.done = true
			if t.abort {
				return // path is over; nobody waits for a baton
			}
			if r != nil {
				switch r := r.(type) {
				case pathAbort:
					if r.kind == abThreadExit {
						return
					}
					s.pending = r
				case targetPanic, targetRuntimeError:
					// an uncaught panic in a goroutine crashes the process
					func() {
						defer func() { s.pending = recover() }()
						m.reportTargetPanic(r)
					}()
				default:
					s.pending = pathAbort{abEngine, fmt.Sprintf("%v\n%s", r, debug.Stack())}
				}
				// hand the baton to main, which re-raises
				s.handTo(s.threads[0])
				return
			}
			// normal exit: pass the baton on
			s.threadExit(t)
		}()
		tfr := &frame{i: m, thr: t}
		_ = tfr
		call(m, nil, pos, fn, args)
	}()
	// the new thread is runnable; whether it runs now is a scheduling decision
	m.schedPoint("go")
}

// handTo gives the baton to t without parking the caller (caller is exiting).
func (s *scheduler) handTo(t *thread) {
	s.cur = t
	t.blocked = false
	t.wake <- struct{}{}
}

// enabled lists threads that can run now.
func (s *scheduler) enabled() []*thread {
	var en []*thread
	for _, t := range s.threads {
		if t.done {
			continue
		}
		if t.blocked {
			if t.cond != nil && t.cond() {
				en = append(en, t)
			}
			continue
		}
		en = append(en, t)
	}
	return en
}

func (s *scheduler) firableTimers() []*vtimer {
	if s.fires >= s.m.limits.TimerFires {
		return nil
	}
	var ts []*vtimer
	for _, t := range s.timers {
		if t.active && (s.m.limits.TimerHorizonNS == 0 || t.dur <= s.m.limits.TimerHorizonNS) {
			ts = append(ts, t)
		}
	}
	return ts
}

// switchTo parks the current thread and runs t.
func (s *scheduler) switchTo(t *thread) {
	me := s.cur
	if t == me {
		return
	}
	s.switches++
	if s.m.Log != nil {
		s.m.logf("sched: goroutine %d -> goroutine %d (at %s, %s)", me.id, t.id, s.lastOp, s.m.whereAmI())
	}
	s.cur = t
	t.wake <- struct{}{}
	s.park(me)
}

// park waits for the baton.
func (s *scheduler) park(me *thread) {
	<-me.wake
	if me.abort {
		panic(pathAbort{abThreadExit, "path ended"})
	}
	if me.id == 0 && s.pending != nil {
		p := s.pending
		s.pending = nil
		panic(p)
	}
}

// schedPoint is called before every visible operation of a running thread.
func (m *Machine) schedPoint(what string) {
	s := m.sched
	if s == nil || m.ps == nil || !s.multi || m.ghostDepth > 0 {
		return
	}
	s.lastOp = what
	me := s.cur
	// fairness for spin-waits: a thread that has gone through many
	// synchronisation operations in a row while others are runnable offers the
	// processor (a fair scheduler would have pre-empted it); without this a
	// busy-wait loop never lets the thread it waits for run once the
	// pre-emption budget is spent
	if me.lastRun == s.switches {
		me.streak++
	} else {
		me.lastRun, me.streak = s.switches, 0
	}
	if me.streak >= spinYieldAfter {
		me.streak = 0
		// must hand over to another runnable thread (not to itself)
		var others []*thread
		for _, t := range s.enabled() {
			if t != me {
				others = append(others, t)
			}
		}
		if len(others) > 0 {
			c := m.Choose(len(others))
			s.sched = append(s.sched, int64(c))
			s.switchTo(others[c])
			return
		}
	}
	for {
		var others []*thread
		for _, t := range s.enabled() {
			if t != me {
				others = append(others, t)
			}
		}
		timers := s.firableTimers()
		nPre := 0
		if s.preemptions < m.limits.Preemptions {
			nPre = len(others)
		}
		n := 1 + nPre + len(timers)
		if n == 1 {
			return
		}
		c := m.Choose(n)
		s.sched = append(s.sched, int64(c))
		switch {
		case c == 0:
			return
		case c <= nPre:
			s.preemptions++
			s.switchTo(others[c-1])
			return
		default:
			s.fire(timers[c-1-nPre])
			// loop: another decision after the environment action
		}
	}
}

// block parks the current thread until cond holds (evaluated by whoever
// schedules next). Returns when the thread has been chosen to run again.
func (m *Machine) block(what string, cond func() bool) {
	s := m.sched
	if s == nil || m.ps == nil {
		unsupported("blocking operation (%s) outside a scheduled path", what)
	}
	me := s.cur
	me.blocked = true
	me.cond = cond
	me.what = what
	s.pickNext(me)
	me.blocked = false
	me.cond = nil
}

// pickNext chooses who runs when the current thread cannot continue.
// If the choice is the caller itself (its condition became true through an
// environment action) it simply returns.
func (s *scheduler) pickNext(me *thread) {
	m := s.m
	for {
		en := s.enabled()
		timers := s.firableTimers()
		n := len(en) + len(timers)
		if n == 0 {
			s.deadlock()
		}
		c := m.Choose(n)
		s.sched = append(s.sched, int64(c))
		if c < len(en) {
			t := en[c]
			if t == me {
				return
			}
			s.switches++
			if m.Log != nil && me != nil {
				why := "blocked on " + me.what
				if me.done {
					why = "finished"
				}
				m.logf("sched: goroutine %d %s -> goroutine %d (%s)", me.id, why, t.id, m.whereAmI())
			}
			s.cur = t
			t.wake <- struct{}{}
			if me != nil && !me.done {
				s.park(me)
			}
			return
		}
		s.fire(timers[c-len(en)])
	}
}

func (s *scheduler) threadExit(t *thread) {
	// t.done already set. If everything else is finished or only main remains, continue there.
	en := s.enabled()
	timers := s.firableTimers()
	if len(en)+len(timers) == 0 {
		// nobody can run: if main is blocked this is a deadlock, reported on main
		func() {
			defer func() { s.pending = recover() }()
			s.deadlock()
		}()
		s.handTo(s.threads[0])
		return
	}
	func() {
		defer func() {
			if r := recover(); r != nil {
				s.pending = r
				s.handTo(s.threads[0])
			}
		}()
		s.pickNext(t)
	}()
}

func (s *scheduler) deadlock() {
	m := s.m
	msg := "all goroutines are asleep:"
	for _, t := range s.threads {
		if !t.done {
			msg += fmt.Sprintf(" [g%d blocked on %s]", t.id, t.what)
		}
	}
	if m.live() || m.reportInReplay {
		m.verdictQueries++
		script, ok := m.modelScript(nil)
		if !ok {
			m.inconclusive++
		}
		m.ps.viol = append(m.ps.viol, Violation{Harness: m.harness, Label: "deadlock", Kind: "deadlock", Msg: msg, Script: script, Sched: append([]int64(nil), s.sched...), Trace: m.traceInts()})
	}
	panic(pathAbort{abViolationEnd, "deadlock: " + msg})
}

// ---- timers (environment actions)

func (s *scheduler) fire(t *vtimer) {
	s.fires++
	if s.m.Log != nil {
		s.m.logf("sched: timer %d fires (armed for %dns)", t.id, t.dur)
	}
	if !t.periodic {
		t.active = false
	}
	// a timer does not fire before the instant it was set for: the virtual clock
	// moves there (concrete clocks and durations only)
	if c, ok := s.m.clockVal().(int64); ok && !s.m.clockSymbolic && t.armedAt >= 0 && t.dur > 0 && c < t.armedAt+t.dur {
		s.m.setClock(t.armedAt + t.dur)
	}
	if t.periodic && t.armedAt >= 0 {
		t.armedAt += t.dur
	}
	if t.fn != nil {
		// AfterFunc: run the callback in its own goroutine
		s.m.spawnQuiet(t.fn)
		return
	}
	// timer channel has capacity 1; a full channel drops the tick
	c := t.ch
	if rq := c.popRecv(); rq != nil {
		w := c.owner[rq]
		s.m.completeWaiter(w, rq, s.m.timeNowValue(), true)
		return
	}
	if len(c.buf) < c.capa {
		c.buf = append(c.buf, s.m.timeNowValue())
	}
}

// spawnQuiet starts a goroutine without a scheduling decision at the go
// statement (used for timer callbacks).
func (m *Machine) spawnQuiet(fn value) {
	s := m.sched
	t := &thread{id: len(s.threads), wake: make(chan struct{}, 1), finished: make(chan struct{})}
	s.threads = append(s.threads, t)
	s.multi = true
	t.vc = vclock{}.tick(t.id)
	go func() {
		defer close(t.finished)
		<-t.wake
		if t.abort {
			t.done = true
			return
		}
		t.started = true
		defer func() {
			r := recover()
			t.done = true
			if t.abort {
				return
			}
			if r != nil {
				switch r := r.(type) {
				case pathAbort:
					if r.kind == abThreadExit {
						return
					}
					s.pending = r
				case targetPanic, targetRuntimeError:
					func() {
						defer func() { s.pending = recover() }()
						m.reportTargetPanic(r)
					}()
				default:
					s.pending = pathAbort{abEngine, fmt.Sprintf("%v\n%s", r, debug.Stack())}
				}
				s.handTo(s.threads[0])
				return
			}
			s.threadExit(t)
		}()
		call(m, nil, token.NoPos, fn, nil)
	}()
}

// ---- channels

func (m *Machine) newChan(n int, et types.Type) *channel {
	c := &channel{capa: n, elemT: et, owner: map[*waitReg]*waiter{}}
	if m.sched != nil {
		m.sched.nchan++
		c.id = m.sched.nchan
	}
	return c
}

func (c *channel) popRecv() *waitReg {
	for len(c.recvq) > 0 {
		r := c.recvq[0]
		c.recvq = c.recvq[1:]
		if w := c.owner[r]; w != nil && !w.fired {
			return r
		}
	}
	return nil
}

func (c *channel) popSend() *waitReg {
	for len(c.sendq) > 0 {
		r := c.sendq[0]
		c.sendq = c.sendq[1:]
		if w := c.owner[r]; w != nil && !w.fired {
			return r
		}
	}
	return nil
}

func (c *channel) hasRecvWaiter() bool {
	for _, r := range c.recvq {
		if w := c.owner[r]; w != nil && !w.fired {
			return true
		}
	}
	return false
}

func (c *channel) hasSendWaiter() bool {
	for _, r := range c.sendq {
		if w := c.owner[r]; w != nil && !w.fired {
			return true
		}
	}
	return false
}

// completeWaiter finishes a blocked channel operation of another thread.
func (m *Machine) completeWaiter(w *waiter, r *waitReg, v value, ok bool) {
	w.fired = true
	w.caseIx = r.caseIx
	w.val = v
	w.ok = ok
	// drop the other registrations
	for i := range w.regs {
		if w.regs[i].ch != nil {
			delete(w.regs[i].ch.owner, &w.regs[i])
		}
	}
	// hb: the completing thread's clock flows to the waiter
	if s := m.sched; s != nil && s.cur != nil {
		w.thr.vc = w.thr.vc.join(s.cur.vc)
	}
}

func (m *Machine) sendReady(c *channel) bool {
	if c == nil {
		return false
	}
	return c.closed || c.hasRecvWaiter() || len(c.buf) < c.capa
}

func (m *Machine) recvReady(c *channel) bool {
	if c == nil {
		return false
	}
	return len(c.buf) > 0 || c.hasSendWaiter() || c.closed
}

// doSend performs a ready send.
func (m *Machine) doSend(c *channel, v value) {
	if c.closed {
		panic(targetRuntimeError("send on closed channel"))
	}
	s := m.sched
	if s != nil && s.cur != nil {
		s.cur.vc = s.cur.vc.tick(s.cur.id)
	}
	if r := c.popRecv(); r != nil {
		m.completeWaiter(c.owner[r], r, copyVal(v), true)
		return
	}
	if len(c.buf) < c.capa {
		c.buf = append(c.buf, copyVal(v))
		if s != nil && s.cur != nil {
			c.vc = c.vc.join(s.cur.vc)
		}
		return
	}
	panic(pathAbort{abEngine, "doSend on a channel that is not ready"})
}

// doRecv performs a ready receive.
func (m *Machine) doRecv(c *channel) (value, bool) {
	s := m.sched
	if len(c.buf) > 0 {
		v := c.buf[0]
		c.buf = c.buf[1:]
		if s != nil && s.cur != nil {
			s.cur.vc = s.cur.vc.join(c.vc)
		}
		// a blocked sender can now enqueue
		if r := c.popSend(); r != nil {
			c.buf = append(c.buf, r.val)
			w := c.owner[r]
			c.vc = c.vc.join(w.thr.vc)
			m.completeWaiter(w, r, nil, true)
		}
		return v, true
	}
	if r := c.popSend(); r != nil {
		w := c.owner[r]
		if s != nil && s.cur != nil {
			s.cur.vc = s.cur.vc.join(w.thr.vc)
		}
		v := r.val
		m.completeWaiter(w, r, nil, true)
		return v, true
	}
	if c.closed {
		if s != nil && s.cur != nil {
			s.cur.vc = s.cur.vc.join(c.vc)
		}
		return nil, false
	}
	panic(pathAbort{abEngine, "doRecv on a channel that is not ready"})
}

// waitOn blocks the current thread on the given registrations.
func (m *Machine) waitOn(regs []waitReg, what string) *waiter {
	s := m.sched
	if s == nil || m.ps == nil {
		unsupported("blocking channel operation outside a scheduled path")
	}
	me := s.cur
	w := &waiter{thr: me, regs: regs}
	for i := range w.regs {
		r := &w.regs[i]
		if r.ch == nil {
			continue
		}
		r.ch.owner[r] = w
		if r.send {
			r.ch.sendq = append(r.ch.sendq, r)
		} else {
			r.ch.recvq = append(r.ch.recvq, r)
		}
	}
	me.waiter = w
	m.block(what, func() bool { return w.fired })
	me.waiter = nil
	if w.panicS != "" {
		panic(targetRuntimeError(w.panicS))
	}
	return w
}

func (m *Machine) chanSend(fr *frame, cv value, v value) {
	c := cv.(*channel)
	m.schedPoint("chan send")
	if m.sendReady(c) {
		m.doSend(c, v)
		return
	}
	what := "chan send (nil chan)"
	if c != nil {
		what = fmt.Sprintf("chan send on ch%d", c.id)
	}
	m.waitOn([]waitReg{{ch: c, send: true, val: copyVal(v)}}, what)
}

func (m *Machine) chanRecv(fr *frame, cv value) (value, bool) {
	c := cv.(*channel)
	m.schedPoint("chan recv")
	if m.recvReady(c) {
		return m.doRecv(c)
	}
	what := "chan receive (nil chan)"
	if c != nil {
		what = fmt.Sprintf("chan receive on ch%d", c.id)
	}
	w := m.waitOn([]waitReg{{ch: c}}, what)
	return w.val, w.ok
}

func (m *Machine) chanClose(fr *frame, cv value) {
	c := cv.(*channel)
	m.schedPoint("chan close")
	if c == nil {
		panic(targetRuntimeError("close of nil channel"))
	}
	if c.closed {
		panic(targetRuntimeError("close of closed channel"))
	}
	c.closed = true
	if s := m.sched; s != nil && s.cur != nil {
		s.cur.vc = s.cur.vc.tick(s.cur.id)
		c.vc = c.vc.join(s.cur.vc)
	}
	for {
		r := c.popRecv()
		if r == nil {
			break
		}
		m.completeWaiter(c.owner[r], r, nil, false)
	}
	for {
		r := c.popSend()
		if r == nil {
			break
		}
		w := c.owner[r]
		m.completeWaiter(w, r, nil, false)
		w.panicS = "send on closed channel"
	}
}

func (m *Machine) chanLen(fr *frame, c *channel) int {
	if c == nil {
		return 0
	}
	m.schedPoint("chan len")
	return len(c.buf)
}

// doSelect implements the select statement.
func (m *Machine) doSelect(fr *frame, instr *ssa.Select) value {
	m.schedPoint("select")
	type sc struct {
		ch   *channel
		send bool
		val  value
	}
	var cases []sc
	for _, st := range instr.States {
		c := sc{ch: fr.get(st.Chan).(*channel), send: st.Dir == types.SendOnly}
		if c.send {
			c.val = fr.get(st.Send)
		}
		cases = append(cases, c)
	}
	var ready []int
	for i, c := range cases {
		if c.send {
			if m.sendReady(c.ch) {
				ready = append(ready, i)
			}
		} else if m.recvReady(c.ch) {
			ready = append(ready, i)
		}
	}
	chosen := -1
	var recv value
	recvOk := false
	switch {
	case len(ready) > 0:
		k := 0
		if len(ready) > 1 {
			k = m.Choose(len(ready))
			if m.sched != nil {
				m.sched.sched = append(m.sched.sched, int64(k))
			}
		}
		chosen = ready[k]
		c := cases[chosen]
		if c.send {
			m.doSend(c.ch, c.val)
		} else {
			recv, recvOk = m.doRecv(c.ch)
		}
	case !instr.Blocking:
		chosen = -1
	default:
		regs := make([]waitReg, len(cases))
		allNil := true
		for i, c := range cases {
			regs[i] = waitReg{ch: c.ch, send: c.send, caseIx: i}
			if c.send {
				regs[i].val = copyVal(c.val)
			}
			if c.ch != nil {
				allNil = false
			}
		}
		_ = allNil
		w := m.waitOn(regs, "select")
		chosen = w.caseIx
		recv, recvOk = w.val, w.ok
	}
	r := tuple{chosen, recvOk}
	for i, st := range instr.States {
		if st.Dir == types.RecvOnly {
			var v value
			if i == chosen && recvOk {
				v = recv
			} else {
				v = zero(st.Chan.Type().Underlying().(*types.Chan).Elem())
			}
			r = append(r, v)
		}
	}
	return r
}

// voluntaryYield: the running thread offers the processor (a slow call-back,
// runtime.Gosched): every enabled thread may run next, at no pre-emption cost.
func (m *Machine) voluntaryYield() {
	s := m.sched
	if s == nil || m.ps == nil || !s.multi {
		return
	}
	me := s.cur
	me.blocked = true
	me.cond = func() bool { return true }
	me.what = "yield"
	s.pickNext(me)
	me.blocked = false
	me.cond = nil
}
