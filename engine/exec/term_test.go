package exec

import (
	"math/rand"
	"testing"
)

// linNormal must preserve the value of every linear combination (checked by
// evaluation on random assignments) and must identify combinations that are
// equal as linear forms.
func TestLinNormal(t *testing.T) {
	rng := rand.New(rand.NewSource(1))
	for _, w := range []int{8, 32, 64} {
		tt := NewTermTable()
		vars := []*Term{tt.Var("a", bvSort(w)), tt.Var("b", bvSort(w)), tt.Var("c", bvSort(w)), tt.Var("d", bvSort(w))}
		// naive evaluation alongside construction
		type pair struct {
			t *Term
			f func(env map[string]uint64) uint64
		}
		leaf := func() pair {
			if rng.Intn(4) == 0 {
				c := rng.Uint64() & mask(w)
				return pair{tt.BV(c, w), func(map[string]uint64) uint64 { return c }}
			}
			v := vars[rng.Intn(len(vars))]
			return pair{v, func(env map[string]uint64) uint64 { return env[v.Name] }}
		}
		var gen func(d int) pair
		gen = func(d int) pair {
			if d == 0 {
				return leaf()
			}
			x, y := gen(d-1), gen(rng.Intn(d))
			switch rng.Intn(3) {
			case 0:
				return pair{tt.BVBin("bvadd", x.t, y.t), func(e map[string]uint64) uint64 { return (x.f(e) + y.f(e)) & mask(w) }}
			case 1:
				return pair{tt.BVBin("bvsub", x.t, y.t), func(e map[string]uint64) uint64 { return (x.f(e) - y.f(e)) & mask(w) }}
			default:
				return pair{tt.BVNeg(x.t), func(e map[string]uint64) uint64 { return (-x.f(e)) & mask(w) }}
			}
		}
		for i := 0; i < 3000; i++ {
			p := gen(1 + rng.Intn(5))
			for j := 0; j < 4; j++ {
				env := map[string]uint64{}
				for _, v := range vars {
					env[v.Name] = rng.Uint64() & mask(w)
				}
				got, ok := p.t.Eval(env, map[*Term]uint64{})
				if !ok {
					t.Fatalf("eval failed for %s", p.t.body())
				}
				if want := p.f(env); got != want {
					t.Fatalf("w=%d: %s evaluates to %#x, want %#x (env %v)", w, p.t.body(), got, want, env)
				}
			}
		}
		a, b, c := vars[0], vars[1], vars[2]
		add := func(x, y *Term) *Term { return tt.BVBin("bvadd", x, y) }
		sub := func(x, y *Term) *Term { return tt.BVBin("bvsub", x, y) }
		eq := [][2]*Term{
			{add(add(a, b), c), add(a, add(c, b))},
			{sub(add(a, b), b), a},
			{sub(add(a, b), c), add(sub(a, c), b)},
			{sub(a, sub(b, c)), add(sub(a, b), c)},
			{sub(sub(add(a, b), c), sub(b, c)), a},
			{tt.BVNeg(sub(a, b)), sub(b, a)},
			{add(sub(a, tt.BV(3, w)), tt.BV(3, w)), a},
		}
		for i, e := range eq {
			if e[0] != e[1] {
				t.Errorf("w=%d case %d: %s and %s are not identified", w, i, e[0].body(), e[1].body())
			}
		}
	}
}
