// Copyright 2013 The Go Authors. All rights reserved.
// Use of this source code is governed by a BSD-style
// license that can be found in the LICENSE file (LICENSE.x-tools).
//
// This file derives from golang.org/x/tools/go/ssa/interp (v0.29.0),
// turned from a concrete into a symbolic interpreter.

package exec

import (
	"fmt"
	"go/token"
	"go/types"
	"io"
	"os"
	"path/filepath"
	"runtime"
	"runtime/debug"
	"slices"
	"strings"
	"sync"

	"golang.org/x/tools/go/ssa"
)

type continuation int

const (
	kNext continuation = iota
	kReturn
	kJump
)

type methodSet map[string]*ssa.Function

// Machine is the state of one worker: program, globals, terms, solver and
// the state of the path being executed.
type Machine struct {
	prog               *ssa.Program
	mainPkg            *ssa.Package
	globals            map[*ssa.Global]*value
	poison             map[*ssa.Global]string // globals of packages whose init did not complete
	reflectPackage     *ssa.Package
	errorMethods       methodSet
	rtypeMethods       methodSet
	runtimeErrorString types.Type
	sizes              types.Sizes

	tt     *TermTable
	solver *Solver
	ps     *pathState
	limits Limits

	harness              string
	inconclusive         int
	inconclusiveVerdicts int
	verdictQueries       int
	AllocBound           int
	Log                  io.Writer
	Trace                bool

	redirects map[string]*ssa.Function // full function name -> replacement
	noops     map[string]bool          // functions replaced by empty bodies
	merges    map[string]bool          // pure callees merged into ite terms
	env       map[string]value         // model environment variables

	initFailed map[*ssa.Package]string
	initSteps  int
	inInit     bool

	fnSize   map[*ssa.Function]int
	funcsHit map[*ssa.Function]int // executed functions (instruction counts) for evidence
	stubsHit map[string]int

	sched *scheduler

	clock          value
	clockSymbolic  bool
	asyncTimerChan bool
	ghostDepth     int    // > 0 inside vndGhost: no scheduling points, no race check
	logFrame       *frame // innermost frame and instruction, kept only while logging
	logInstr       ssa.Instruction
	reportInReplay bool
	witnessDone    *sync.Map
	NoDomain       bool
	minmaxUnsigned bool
	LenientSprintf bool
	lastIf         *ssa.If
	forkSites      map[string]int
	domainHits     int
	denyInit       map[string]bool
}

type deferred struct {
	fn    value
	args  []value
	instr *ssa.Defer
	tail  *deferred
}

type frame struct {
	i                *Machine
	caller           *frame
	fn               *ssa.Function
	block, prevBlock *ssa.BasicBlock
	env              map[ssa.Value]value // dynamic values of SSA variables
	locals           []value
	defers           *deferred
	result           value
	panicking        bool
	panic            interface{}
	phitemps         []value // temporaries for parallel phi assignment
	thr              *thread
}

func (fr *frame) get(key ssa.Value) value {
	switch key := key.(type) {
	case nil:
		return nil
	case *ssa.Function, *ssa.Builtin:
		return key
	case *ssa.Const:
		return constValue(key)
	case *ssa.Global:
		if r, ok := fr.i.globals[key]; ok {
			if len(fr.i.poison) > 0 {
				if why, bad := fr.i.poison[key]; bad {
					unsupported("global %s of a package whose init did not complete (%s)", key, why)
				}
			}
			return r
		}
	}
	if r, ok := fr.env[key]; ok {
		return r
	}
	panic(fmt.Sprintf("get: no value for %T: %v", key, key.Name()))
}

// runDefer runs a deferred call d.
// It always returns normally, but may set or clear fr.panic.
func (fr *frame) runDefer(d *deferred) {
	var ok bool
	defer func() {
		if !ok {
			// Deferred call created a new state of panic.
			r := recover()
			fr.i.passAbort(r)
			fr.panicking = true
			fr.panic = r
		}
	}()
	call(fr.i, fr, d.instr.Pos(), d.fn, d.args)
	ok = true
}

// passAbort re-panics path aborts and converts engine failures into aborts.
func (m *Machine) passAbort(r interface{}) {
	switch r := r.(type) {
	case pathAbort:
		panic(r)
	case targetPanic, targetRuntimeError:
		return
	case nil:
		return
	default:
		panic(pathAbort{abEngine, fmt.Sprintf("%v\n%s", r, debug.Stack())})
	}
}

func (fr *frame) runDefers() {
	for d := fr.defers; d != nil; d = d.tail {
		fr.runDefer(d)
	}
	fr.defers = nil
	if fr.panicking {
		panic(fr.panic) // new panic, or still panicking
	}
}

func lookupMethod(i *Machine, typ types.Type, meth *types.Func) *ssa.Function {
	switch typ {
	case rtypeType:
		return i.rtypeMethods[meth.Id()]
	case errorType:
		return i.errorMethods[meth.Id()]
	}
	return i.prog.LookupMethod(typ, meth.Pkg(), meth.Name())
}

func (fr *frame) deref(p value) *value {
	a, ok := p.(*value)
	if !ok {
		panic(pathAbort{abEngine, fmt.Sprintf("deref of %T in %s", p, fr.fn)})
	}
	if a == nil {
		panic(targetRuntimeError("invalid memory address or nil pointer dereference"))
	}
	return a
}

// visitInstr interprets a single ssa.Instruction within the activation
// record frame.
func visitInstr(fr *frame, instr ssa.Instruction) continuation {
	m := fr.i
	switch instr := instr.(type) {
	case *ssa.DebugRef:
		// no-op

	case *ssa.UnOp:
		fr.env[instr] = unop(fr, instr, fr.get(instr.X))

	case *ssa.BinOp:
		fr.env[instr] = m.binop(instr.Op, instr.X.Type(), fr.get(instr.X), fr.get(instr.Y), instr.Y.Type())

	case *ssa.Call:
		fn, args := prepareCall(fr, &instr.Call)
		fr.env[instr] = call(fr.i, fr, instr.Pos(), fn, args)

	case *ssa.ChangeInterface:
		fr.env[instr] = fr.get(instr.X)

	case *ssa.ChangeType:
		fr.env[instr] = fr.get(instr.X) // (can't fail)

	case *ssa.Convert:
		fr.env[instr] = m.conv(instr.Type(), instr.X.Type(), fr.get(instr.X))

	case *ssa.SliceToArrayPointer:
		fr.env[instr] = sliceToArrayPointer(instr.Type(), instr.X.Type(), fr.get(instr.X))

	case *ssa.MakeInterface:
		fr.env[instr] = iface{t: instr.X.Type(), v: fr.get(instr.X)}

	case *ssa.Extract:
		fr.env[instr] = fr.get(instr.Tuple).(tuple)[instr.Index]

	case *ssa.Slice:
		fr.env[instr] = m.slice(fr.get(instr.X), fr.get(instr.Low), fr.get(instr.High), fr.get(instr.Max))

	case *ssa.Return:
		switch len(instr.Results) {
		case 0:
		case 1:
			fr.result = fr.get(instr.Results[0])
		default:
			var res []value
			for _, r := range instr.Results {
				res = append(res, fr.get(r))
			}
			fr.result = tuple(res)
		}
		fr.block = nil
		return kReturn

	case *ssa.RunDefers:
		fr.runDefers()

	case *ssa.Panic:
		panic(targetPanic{fr.get(instr.X)})

	case *ssa.Send:
		m.chanSend(fr, fr.get(instr.Chan), fr.get(instr.X))

	case *ssa.Store:
		if g, ok := instr.Addr.(*ssa.Global); ok {
			if why, bad := m.poison[g]; bad {
				// a harness (or the program) assigns the global explicitly: from here on it is defined
				delete(m.poison, g)
				m.logUndo(func() { m.poison[g] = why })
			}
		}
		addr := fr.deref(fr.get(instr.Addr))
		// "return x" of a named result x is built as the self-assignment
		// t = *x; *x = t, which the compiler does not emit: not a write
		selfStore := false
		if u, ok := instr.Val.(*ssa.UnOp); ok && u.Op == token.MUL && u.X == instr.Addr {
			selfStore = true
		}
		if !selfStore {
			m.raceAccess(fr, addr, true)
		}
		m.store(mustDeref(instr.Addr.Type()), addr, fr.get(instr.Val))

	case *ssa.If:
		succ := 1
		m.lastIf = instr
		if m.truth(fr.get(instr.Cond)) {
			succ = 0
		}
		fr.prevBlock, fr.block = fr.block, fr.block.Succs[succ]
		return kJump

	case *ssa.Jump:
		fr.prevBlock, fr.block = fr.block, fr.block.Succs[0]
		return kJump

	case *ssa.Defer:
		fn, args := prepareCall(fr, &instr.Call)
		defers := &fr.defers
		if into := fr.get(instr.DeferStack); into != nil {
			defers = into.(**deferred)
		}
		*defers = &deferred{
			fn:    fn,
			args:  args,
			instr: instr,
			tail:  *defers,
		}

	case *ssa.Go:
		fn, args := prepareCall(fr, &instr.Call)
		m.spawn(fr, instr.Pos(), fn, args)

	case *ssa.MakeChan:
		n := m.concreteInt(fr.get(instr.Size), "channel size")
		if n < 0 {
			panic(targetRuntimeError("makechan: size out of range"))
		}
		fr.env[instr] = m.newChan(int(n), instr.Type().Underlying().(*types.Chan).Elem())

	case *ssa.Alloc:
		var addr *value
		if instr.Heap {
			// new
			addr = new(value)
			fr.env[instr] = addr
		} else {
			// local
			addr = fr.env[instr].(*value)
		}
		*addr = zero(mustDeref(instr.Type()))

	case *ssa.MakeSlice:
		c := m.concreteInt(fr.get(instr.Cap), "slice capacity")
		l := m.concreteInt(fr.get(instr.Len), "slice length")
		if l < 0 {
			panic(targetRuntimeError("makeslice: len out of range"))
		}
		if c < l {
			panic(targetRuntimeError("makeslice: cap out of range"))
		}
		if c > 1<<24 {
			unsupported("makeslice of %d elements", c)
		}
		slice := make([]value, c)
		tElt := instr.Type().Underlying().(*types.Slice).Elem()
		for i := range slice {
			slice[i] = zero(tElt)
		}
		fr.env[instr] = slice[:l]

	case *ssa.MakeMap:
		fr.env[instr] = newAmap(instr.Type().Underlying().(*types.Map).Key())

	case *ssa.Range:
		fr.env[instr] = m.rangeIter(fr.get(instr.X), instr.X.Type())

	case *ssa.Next:
		fr.env[instr] = fr.get(instr.Iter).(iter).next()

	case *ssa.FieldAddr:
		p := fr.deref(fr.get(instr.X))
		fr.env[instr] = &(*p).(structure)[instr.Field]

	case *ssa.Field:
		fr.env[instr] = fr.get(instr.X).(structure)[instr.Field]

	case *ssa.IndexAddr:
		x := fr.get(instr.X)
		idx := fr.get(instr.Index)
		var arr []value
		switch x := x.(type) {
		case []value:
			arr = x
		case *value: // *array
			if x == nil {
				panic(targetRuntimeError("invalid memory address or nil pointer dereference"))
			}
			arr = (*x).(array)
		default:
			panic(fmt.Sprintf("unexpected x type in IndexAddr: %T", x))
		}
		if it, ok := idx.(*Term); ok {
			fr.env[instr] = m.symIndexAddr(instr, arr, it, instr.Index.Type())
		} else {
			i := asInt64(idx)
			if i < 0 || i >= int64(len(arr)) {
				panic(targetRuntimeError(fmt.Sprintf("index out of range [%d] with length %d", i, len(arr))))
			}
			fr.env[instr] = &arr[i]
		}

	case *ssa.Index:
		x := fr.get(instr.X)
		idx := fr.get(instr.Index)
		fr.env[instr] = m.index(x, idx, instr.Index.Type())

	case *ssa.Lookup:
		fr.env[instr] = m.lookup(instr, fr.get(instr.X), fr.get(instr.Index))

	case *ssa.MapUpdate:
		mp := fr.get(instr.Map).(*amap)
		if mp == nil {
			panic(targetRuntimeError("assignment to entry in nil map"))
		}
		m.raceAccessObj(fr, mp, true)
		m.mapInsert(mp, fr.get(instr.Key), fr.get(instr.Value))

	case *ssa.TypeAssert:
		fr.env[instr] = typeAssert(fr.i, instr, fr.get(instr.X).(iface))

	case *ssa.MakeClosure:
		var bindings []value
		for _, binding := range instr.Bindings {
			bindings = append(bindings, fr.get(binding))
		}
		fr.env[instr] = &closure{instr.Fn.(*ssa.Function), bindings}

	case *ssa.Phi:
		panic("unreachable") // phis are processed at block entry

	case *ssa.Select:
		fr.env[instr] = m.doSelect(fr, instr)

	default:
		panic(fmt.Sprintf("unexpected instruction: %T", instr))
	}
	return kNext
}

// truth turns a (possibly symbolic) boolean into a control decision.
func (m *Machine) truth(v value) bool {
	switch v := v.(type) {
	case bool:
		return v
	case *Term:
		if m.ps == nil {
			unsupported("symbolic branch outside a path")
		}
		return m.Branch(v)
	}
	panic(fmt.Sprintf("truth of %T", v))
}

// concreteInt returns an integer value, enumerating feasible values of a
// symbolic one.
func (m *Machine) concreteInt(v value, what string) int64 {
	if v == nil {
		return 0
	}
	if t, ok := v.(*Term); ok {
		// sizes: refuse negative / huge first so that enumeration stays small
		w := t.S.W
		neg := m.tt.BVCmp("bvslt", t, m.tt.BV(0, w))
		if m.Branch(neg) {
			return -1
		}
		big := m.tt.BVCmp("bvslt", m.tt.BV(uint64(m.allocBound()), w), t)
		if m.Branch(big) {
			unsupported("%s may exceed the allocation bound %d", what, m.allocBound())
		}
		return sext(m.Concretize(t), w)
	}
	return asInt64(v)
}

// prepareCall determines the function value and argument values for a
// function call in a Call, Go or Defer instruction, performing
// interface method lookup if needed.
func prepareCall(fr *frame, call *ssa.CallCommon) (fn value, args []value) {
	v := fr.get(call.Value)
	if call.Method == nil {
		// Function call.
		fn = v
	} else {
		// Interface method invocation.
		recv := v.(iface)
		if recv.t == nil {
			panic(targetRuntimeError("invalid memory address or nil pointer dereference (method " + call.Method.Name() + " invoked on nil interface)"))
		}
		if f := lookupMethod(fr.i, recv.t, call.Method); f == nil {
			// Unreachable in well-typed programs.
			panic(fmt.Sprintf("method set for dynamic type %v does not contain %s", recv.t, call.Method))
		} else {
			fn = f
		}
		args = append(args, recv.v)
	}
	for _, arg := range call.Args {
		args = append(args, fr.get(arg))
	}
	return
}

// call interprets a call to a function (function, builtin or closure)
// fn with arguments args, returning its result.
func call(i *Machine, caller *frame, callpos token.Pos, fn value, args []value) value {
	switch fn := fn.(type) {
	case *ssa.Function:
		if fn == nil {
			panic(targetRuntimeError("invalid memory address or nil pointer dereference (call of nil func)"))
		}
		return callSSA(i, caller, callpos, fn, args, nil)
	case *closure:
		if fn == nil {
			panic(targetRuntimeError("invalid memory address or nil pointer dereference (call of nil func)"))
		}
		return callSSA(i, caller, callpos, fn.Fn, args, fn.Env)
	case *ssa.Builtin:
		return callBuiltin(caller, callpos, fn, args)
	}
	panic(fmt.Sprintf("cannot call %T", fn))
}

func loc(fset *token.FileSet, pos token.Pos) string {
	if pos == token.NoPos {
		return ""
	}
	return " at " + fset.Position(pos).String()
}

func funcKey(fn *ssa.Function) string {
	if o := fn.Origin(); o != nil {
		return o.String()
	}
	return fn.String()
}

// callSSA interprets a call to function fn with arguments args,
// and lexical environment env, returning its result.
func callSSA(i *Machine, caller *frame, callpos token.Pos, fn *ssa.Function, args []value, env []value) value {
	if i.Trace {
		fmt.Fprintf(os.Stderr, "Entering %s%s.\n", fn, loc(fn.Prog.Fset, fn.Pos()))
		defer fmt.Fprintf(os.Stderr, "Leaving %s.\n", fn)
	}
	fr := &frame{
		i:      i,
		caller: caller, // for panic/recover
		fn:     fn,
	}
	if caller != nil {
		fr.thr = caller.thr
	} else {
		fr.thr = i.curThread()
	}
	if fn.Parent() == nil {
		name := funcKey(fn)
		if strings.HasPrefix(fn.Name(), "vnd") && fn.Signature.Recv() == nil {
			if f := vndFuncs[fn.Name()]; f != nil {
				return f(fr, args)
			}
		}
		if r := i.redirects[name]; r != nil && r != fn {
			i.stubsHit["redirect:"+name]++
			return callSSA(i, caller, callpos, r, args, nil)
		}
		if i.noops[name] {
			i.stubsHit["noop:"+name]++
			return zeroResult(fn)
		}
		if ext := externals[name]; ext != nil {
			i.stubsHit[name]++
			return ext(fr, args)
		}
		if fn.Blocks == nil {
			unsupported("no code for function: %s", name)
		}
		if fn.Synthetic == "package initializer" {
			return i.runPackageInit(fr, fn)
		}
		if i.merges[name] && i.ps != nil {
			if v, ok := i.callMerged(fr, caller, callpos, fn, args); ok {
				return v
			}
		}
	}
	return runFunc(fr, fn, args, env)
}

func zeroResult(fn *ssa.Function) value {
	res := fn.Signature.Results()
	switch res.Len() {
	case 0:
		return nil
	case 1:
		return zero(res.At(0).Type())
	}
	return zero(res)
}

func runFunc(fr *frame, fn *ssa.Function, args []value, env []value) value {
	i := fr.i
	// generic function body?
	if fn.TypeParams().Len() > 0 && len(fn.TypeArgs()) == 0 {
		panic("interp requires ssa.BuilderMode to include InstantiateGenerics to execute generics")
	}
	if i.funcsHit != nil && i.ps != nil {
		i.funcsHit[fn]++
	}
	nv, ok := i.fnSize[fn]
	if !ok {
		nv = len(fn.Params) + len(fn.FreeVars) + len(fn.Locals)
		for _, b := range fn.Blocks {
			for _, ins := range b.Instrs {
				if _, isV := ins.(ssa.Value); isV {
					nv++
				}
			}
		}
		i.fnSize[fn] = nv
	}
	fr.env = make(map[ssa.Value]value, nv)
	fr.block = fn.Blocks[0]
	fr.locals = make([]value, len(fn.Locals))
	for i, l := range fn.Locals {
		fr.locals[i] = zero(mustDeref(l.Type()))
		fr.env[l] = &fr.locals[i]
	}
	for i, p := range fn.Params {
		fr.env[p] = args[i]
	}
	for i, fv := range fn.FreeVars {
		fr.env[fv] = env[i]
	}
	for fr.block != nil {
		runFrame(fr)
	}
	return fr.result
}

// runPackageInit runs a package initializer; if it cannot be completed the
// package's globals are poisoned (reads abort as unsupported) and the
// importer carries on.
func (m *Machine) runPackageInit(fr *frame, fn *ssa.Function) (res value) {
	pkg := fn.Pkg
	if m.skipInit(pkg) {
		m.poisonPackage(pkg, "init not run (deny-listed)")
		// still mark the guard so that nothing re-enters
		return nil
	}
	defer func() {
		if r := recover(); r != nil {
			why := fmt.Sprint(r)
			if pa, ok := r.(pathAbort); ok {
				why = pa.msg
				if pa.kind == abEngine && os.Getenv("GOSYM_DEBUG_INIT") != "" {
					fmt.Fprintf(os.Stderr, "init of %s: engine error: %s\n", pkg.Pkg.Path(), pa.msg)
				}
			}
			if len(why) > 300 {
				why = why[:300]
			}
			m.initFailed[pkg] = why
			m.poisonPackage(pkg, why)
			if pkg.Pkg.Path() == "os" {
				// the standard streams are opaque handles (every output function is a stub)
				for _, n := range []string{"Stdin", "Stdout", "Stderr"} {
					if g, ok := pkg.Members[n].(*ssa.Global); ok {
						*m.globals[g] = extOsNewFile(&frame{i: m}, nil)
						delete(m.poison, g)
					}
				}
			}
			res = nil
		}
	}()
	return runFunc(fr, fn, nil, nil)
}

func (m *Machine) poisonPackage(pkg *ssa.Package, why string) {
	init := pkg.Func("init")
	if init == nil {
		return
	}
	short := pkg.Pkg.Path() + ": " + why
	// poison every global of the package that its initializer touches
	var visit func(fn *ssa.Function)
	seen := map[*ssa.Function]bool{}
	visit = func(fn *ssa.Function) {
		if seen[fn] {
			return
		}
		seen[fn] = true
		for _, b := range fn.Blocks {
			for _, ins := range b.Instrs {
				for _, op := range ins.Operands(nil) {
					if op == nil || *op == nil {
						continue
					}
					if g, ok := (*op).(*ssa.Global); ok && g.Pkg == pkg && !strings.HasPrefix(g.Name(), "init$") {
						m.poison[g] = short
					}
				}
			}
		}
		for _, af := range fn.AnonFuncs {
			visit(af)
		}
	}
	visit(init)
	for name, mem := range pkg.Members {
		if f, ok := mem.(*ssa.Function); ok && strings.HasPrefix(name, "init#") {
			visit(f)
		}
	}
}

// runFrame executes SSA instructions starting at fr.block and
// continuing until a return, a panic, or a recovered panic.
func runFrame(fr *frame) {
	m := fr.i
	defer func() {
		if fr.block == nil {
			return // normal return
		}
		r := recover()
		switch r := r.(type) {
		case pathAbort:
			panic(r)
		case targetPanic, targetRuntimeError:
		case runtime.Error:
			panic(pathAbort{abEngine, fmt.Sprintf("%v in %s\n%s", r, fr.fn, debug.Stack())})
		default:
			panic(pathAbort{abEngine, fmt.Sprintf("%v in %s\n%s", r, fr.fn, debug.Stack())})
		}
		fr.panicking = true
		fr.panic = r
		if m.Trace {
			fmt.Fprintf(os.Stderr, "Panicking: %T %v.\n", fr.panic, fr.panic)
		}
		fr.runDefers()
		fr.block = fr.fn.Recover
	}()

	for {
		if m.Trace {
			fmt.Fprintf(os.Stderr, ".%s:\n", fr.block)
		}
		nonPhis := executePhis(fr)
		for _, instr := range nonPhis {
			if m.Trace {
				if v, ok := instr.(ssa.Value); ok {
					fmt.Fprintln(os.Stderr, "\t", v.Name(), "=", instr)
				} else {
					fmt.Fprintln(os.Stderr, "\t", instr)
				}
			}
			if m.ps != nil {
				m.ps.steps++
				if m.ps.steps > m.limits.MaxSteps {
					panic(pathAbort{abUnwind, fmt.Sprintf("instruction budget %d exhausted in %s", m.limits.MaxSteps, fr.fn)})
				}
			} else if m.inInit {
				m.initSteps++
				if m.initSteps > 20000000 {
					panic(pathAbort{abUnwind, "init budget"})
				}
			}
			if m.Log != nil || debugWhere {
				m.logFrame, m.logInstr = fr, instr
			}
			if visitInstr(fr, instr) == kReturn {
				return
			}
			if m.Trace {
				if v, ok := instr.(ssa.Value); ok {
					fmt.Fprintln(os.Stderr, "\t\t=> ", toString(fr.env[v]))
				}
			}
		}
	}
}

// executePhis executes the phi-nodes at the start of the current
// block and returns the non-phi instructions.
func executePhis(fr *frame) []ssa.Instruction {
	firstNonPhi := -1
	for i, instr := range fr.block.Instrs {
		if _, ok := instr.(*ssa.Phi); !ok {
			firstNonPhi = i
			break
		}
	}
	nonPhis := fr.block.Instrs[firstNonPhi:]
	if firstNonPhi > 0 {
		phis := fr.block.Instrs[:firstNonPhi]
		predIndex := slices.Index(fr.block.Preds, fr.prevBlock)
		fr.phitemps = fr.phitemps[:0]
		for _, phi := range phis {
			phi := phi.(*ssa.Phi)
			fr.phitemps = append(fr.phitemps, fr.get(phi.Edges[predIndex]))
		}
		for i, phi := range phis {
			fr.env[phi.(*ssa.Phi)] = fr.phitemps[i]
		}
	}
	return nonPhis
}

// doRecover implements the recover() built-in.
func doRecover(caller *frame) value {
	if caller != nil && !caller.panicking &&
		caller.caller != nil && caller.caller.panicking {
		caller.caller.panicking = false
		p := caller.caller.panic
		caller.caller.panic = nil
		switch p := p.(type) {
		case targetPanic:
			return p.v
		case targetRuntimeError:
			return iface{caller.i.runtimeErrorString, "runtime error: " + string(p)}
		default:
			panic(fmt.Sprintf("unexpected panic type %T in target call to recover()", p))
		}
	}
	return iface{}
}

// whereAmI names the call chain of the running goroutine (schedule log only).
// GOSYM_WHERE=1: unsupported-operation messages carry the interpreter call chain
var debugWhere = os.Getenv("GOSYM_WHERE") != ""

func (m *Machine) whereAmI() string {
	fr := m.logFrame
	if fr == nil {
		return "?"
	}
	pos := ""
	if m.logInstr != nil && m.logInstr.Pos().IsValid() {
		p := m.prog.Fset.Position(m.logInstr.Pos())
		pos = fmt.Sprintf(" %s:%d", filepath.Base(p.Filename), p.Line)
	}
	var chain []string
	depth := 4
	if debugWhere {
		depth = 14
	}
	for f := fr; f != nil && len(chain) < depth; f = f.caller {
		chain = append(chain, f.fn.RelString(nil))
	}
	return strings.Join(chain, " < ") + pos
}
