package exec

// Vector-clock happens-before race check on heap cells.

import (
	"fmt"
	"go/token"

	"golang.org/x/tools/go/ssa"
)

type vclock []int

func (v vclock) copy() vclock {
	n := make(vclock, len(v))
	copy(n, v)
	return n
}

func (v vclock) get(i int) int {
	if i < len(v) {
		return v[i]
	}
	return 0
}

func (v vclock) tick(i int) vclock {
	for len(v) <= i {
		v = append(v, 0)
	}
	v[i]++
	return v
}

func (v vclock) join(o vclock) vclock {
	for len(v) < len(o) {
		v = append(v, 0)
	}
	for i, x := range o {
		if x > v[i] {
			v[i] = x
		}
	}
	return v
}

type shadowCell struct {
	wWhere     string
	wTid, wClk int
	wPos       token.Pos
	hasW       bool
	reads      map[int]int
	rPos       map[int]token.Pos
}

// acquire / release on a synchronisation object identified by key.
func (m *Machine) hbAcquire(key interface{}) {
	s := m.sched
	if s == nil || s.cur == nil {
		return
	}
	if vc, ok := s.syncVC[key]; ok {
		s.cur.vc = s.cur.vc.join(vc)
	}
}

func (m *Machine) hbRelease(key interface{}) {
	s := m.sched
	if s == nil || s.cur == nil {
		return
	}
	s.syncVC[key] = s.syncVC[key].copy().join(s.cur.vc)
	s.cur.vc = s.cur.vc.tick(s.cur.id)
}

func (m *Machine) raceActive() bool {
	s := m.sched
	return s != nil && s.multi && m.ps != nil && s.raceOn && m.ghostDepth == 0
}

func isLocalAlloc(v ssa.Value) bool {
	if a, ok := v.(*ssa.Alloc); ok && !a.Heap {
		return true
	}
	return false
}

// raceAccess records an access of the current thread to *addr.
func (m *Machine) raceAccess(fr *frame, addr *value, write bool) {
	if !m.raceActive() {
		return
	}
	pos := token.NoPos
	m.forLeaves(addr, func(a *value) { m.raceLeaf(fr, a, write, pos) })
}

func (m *Machine) forLeaves(addr *value, f func(*value)) {
	switch v := (*addr).(type) {
	case structure:
		for i := range v {
			m.forLeaves(&v[i], f)
		}
	case array:
		for i := range v {
			m.forLeaves(&v[i], f)
		}
	default:
		f(addr)
	}
}

func (m *Machine) where(fr *frame) string {
	if fr == nil || fr.fn == nil {
		return "?"
	}
	return fr.fn.String()
}

func (m *Machine) raceLeaf(fr *frame, addr *value, write bool, pos token.Pos) {
	s := m.sched
	t := s.cur
	sh := s.shadow[addr]
	if sh == nil {
		sh = &shadowCell{}
		s.shadow[addr] = sh
	}
	m.raceCheck(fr, sh, t, write, fmt.Sprintf("%p", addr))
}

// raceAccessObj records an access to a non-cell object (a map).
func (m *Machine) raceAccessObj(fr *frame, obj interface{}, write bool) {
	if !m.raceActive() {
		return
	}
	if mp, ok := obj.(*amap); ok && mp == nil {
		return
	}
	s := m.sched
	sh := s.objShadow[obj]
	if sh == nil {
		sh = &shadowCell{}
		s.objShadow[obj] = sh
	}
	m.raceCheck(fr, sh, s.cur, write, fmt.Sprintf("map %p", obj))
}

func (m *Machine) raceCheck(fr *frame, sh *shadowCell, t *thread, write bool, what string) {
	report := func(kind string, otherTid int) {
		if !m.live() && !m.reportInReplay {
			return
		}
		s := m.sched
		label := "race"
		msg := fmt.Sprintf("data race (%s) on %s in %s between g%d and g%d (last write in %s)", kind, what, m.where(fr), t.id, otherTid, sh.wWhere)
		for _, v := range m.ps.viol {
			if v.Kind == "race" {
				return // one report per path is enough
			}
		}
		script, _ := m.modelScript(nil)
		m.ps.viol = append(m.ps.viol, Violation{Harness: m.harness, Label: label, Kind: "race", Msg: msg, Script: script, Sched: append([]int64(nil), s.sched...), Trace: m.traceInts()})
	}
	if sh.hasW && sh.wTid != t.id && sh.wClk > t.vc.get(sh.wTid) {
		if write {
			report("write-write", sh.wTid)
		} else {
			report("write-read", sh.wTid)
		}
	}
	if write {
		for tid, clk := range sh.reads {
			if tid != t.id && clk > t.vc.get(tid) {
				report("read-write", tid)
			}
		}
		sh.hasW = true
		sh.wWhere = m.where(fr)
		sh.wTid = t.id
		sh.wClk = t.vc.get(t.id)
		sh.reads = nil
	} else {
		if sh.reads == nil {
			sh.reads = map[int]int{}
		}
		sh.reads[t.id] = t.vc.get(t.id)
	}
}
