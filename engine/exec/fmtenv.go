package exec

// errors.Is / errors.As / fmt.Errorf / fmt.Sprintf intrinsics.

import (
	"fmt"
	"go/types"
	"math"
	"strconv"
	"strings"

	"golang.org/x/tools/go/ssa"
)

var errorIface = types.Universe.Lookup("error").Type().Underlying().(*types.Interface)

// findMethod returns the method of dynamic type t with the given name.
func (m *Machine) findMethod(t types.Type, name string) *ssa.Function {
	if t == errorType {
		for id, f := range m.errorMethods {
			if strings.HasSuffix(id, name) {
				return f
			}
		}
		return nil
	}
	ms := m.prog.MethodSets.MethodSet(t)
	for i := 0; i < ms.Len(); i++ {
		sel := ms.At(i)
		if sel.Obj().Name() == name {
			return m.prog.MethodValue(sel)
		}
	}
	return nil
}

func (m *Machine) callMethod(fr *frame, recv iface, name string, args ...value) (value, bool) {
	if recv.t == nil {
		return nil, false
	}
	f := m.findMethod(recv.t, name)
	if f == nil {
		return nil, false
	}
	all := append([]value{recv.v}, args...)
	if len(all) != len(f.Params) {
		return nil, false
	}
	return call(m, fr, 0, f, all), true
}

func (m *Machine) errorIs(fr *frame, err, target iface, depth int) bool {
	if depth > 50 {
		unsupported("errors.Is chain too deep")
	}
	if err.t == nil || target.t == nil {
		return err.t == nil && target.t == nil
	}
	comparable := types.Comparable(target.t)
	for {
		if comparable && sameType(err.t, target.t) {
			if m.truth(m.equalsV(err.t, err.v, target.v)) {
				return true
			}
		}
		if f := m.findMethod(err.t, "Is"); f != nil && len(f.Params) == 2 && f.Signature.Results().Len() == 1 {
			if r, ok := call(m, fr, 0, f, []value{err.v, target}).(bool); ok && r {
				return true
			}
		}
		f := m.findMethod(err.t, "Unwrap")
		if f == nil || len(f.Params) != 1 || f.Signature.Results().Len() != 1 {
			return false
		}
		switch r := call(m, fr, 0, f, []value{err.v}).(type) {
		case iface:
			if r.t == nil {
				return false
			}
			err = r
		case []value:
			for _, e := range r {
				if e.(iface).t == nil {
					continue
				}
				if m.errorIs(fr, e.(iface), target, depth+1) {
					return true
				}
			}
			return false
		default:
			return false
		}
	}
}

func extErrorsIs(fr *frame, a []value) value {
	return fr.i.errorIs(fr, a[0].(iface), a[1].(iface), 0)
}

func (m *Machine) errorAs(fr *frame, err iface, targetPtr *value, targetT types.Type, depth int) bool {
	if depth > 50 {
		unsupported("errors.As chain too deep")
	}
	for {
		if err.t == nil {
			return false
		}
		if it, ok := targetT.Underlying().(*types.Interface); ok {
			if checkInterface(m, it, err) == "" {
				m.setCell(targetPtr, err)
				return true
			}
		} else if types.Identical(err.t, targetT) {
			m.store(targetT, targetPtr, err.v)
			return true
		}
		if f := m.findMethod(err.t, "As"); f != nil && len(f.Params) == 2 {
			anyT := types.NewInterfaceType(nil, nil)
			_ = anyT
			if r, ok := call(m, fr, 0, f, []value{err.v, iface{types.NewPointer(targetT), targetPtr}}).(bool); ok && r {
				return true
			}
		}
		f := m.findMethod(err.t, "Unwrap")
		if f == nil || len(f.Params) != 1 || f.Signature.Results().Len() != 1 {
			return false
		}
		switch r := call(m, fr, 0, f, []value{err.v}).(type) {
		case iface:
			err = r
		case []value:
			for _, e := range r {
				if m.errorAs(fr, e.(iface), targetPtr, targetT, depth+1) {
					return true
				}
			}
			return false
		default:
			return false
		}
	}
}

func extErrorsAs(fr *frame, a []value) value {
	m := fr.i
	err := a[0].(iface)
	tgt := a[1].(iface)
	if tgt.t == nil {
		panic(targetPanic{iface{types.Typ[types.String], "errors: target cannot be nil"}})
	}
	pt, ok := tgt.t.Underlying().(*types.Pointer)
	if !ok || tgt.v.(*value) == nil {
		panic(targetPanic{iface{types.Typ[types.String], "errors: target must be a non-nil pointer"}})
	}
	return m.errorAs(fr, err, tgt.v.(*value), pt.Elem(), 0)
}

// ---- formatting

// fmtArg renders one argument for %v / %s / %d. lenient => never aborts.
func (m *Machine) fmtArg(fr *frame, verb byte, arg value, lenient bool) value {
	it, isIface := arg.(iface)
	var v value = arg
	var t types.Type
	if isIface {
		v, t = it.v, it.t
		if t == nil {
			if verb == 's' {
				return "%!s(<nil>)"
			}
			return "<nil>"
		}
	}
	giveUp := func(why string) value {
		if lenient {
			return "<?>"
		}
		unsupported("formatting: %s", why)
		return nil
	}
	// error / Stringer
	if t != nil && (verb == 'v' || verb == 's' || verb == 'q' || verb == 'w') {
		if _, basic := t.Underlying().(*types.Basic); !basic || types.NewMethodSet(t).Len() > 0 {
			if f := m.findMethod(t, "Error"); f != nil && len(f.Params) == 1 {
				if isNilPtr(v) {
					return "<nil>"
				}
				s := call(m, fr, 0, f, []value{v})
				if verb == 'q' {
					return m.quote(s, lenient)
				}
				return s
			}
			if f := m.findMethod(t, "String"); f != nil && len(f.Params) == 1 && f.Signature.Results().Len() == 1 {
				if isNilPtr(v) {
					return "<nil>"
				}
				s := call(m, fr, 0, f, []value{v})
				if verb == 'q' {
					return m.quote(s, lenient)
				}
				return s
			}
		}
	}
	switch x := v.(type) {
	case string:
		switch verb {
		case 'q':
			return strconv.Quote(x)
		case 'x':
			return fmt.Sprintf("%x", x)
		case 'd':
			return giveUp("%d of string")
		}
		return x
	case symstr:
		if verb == 's' || verb == 'v' || verb == 'w' {
			return x
		}
		return giveUp("verb on symbolic string")
	case bool:
		return strconv.FormatBool(x)
	case int, int8, int16, int32, int64:
		n := asInt64(x)
		switch verb {
		case 'd', 'v':
			return strconv.FormatInt(n, 10)
		case 'x':
			return strconv.FormatInt(n, 16)
		case 'X':
			return strings.ToUpper(strconv.FormatInt(n, 16))
		case 'c':
			return string(rune(n))
		case 'q':
			return strconv.QuoteRune(rune(n))
		case 's':
			return fmt.Sprintf("%%!s(%T=%d)", x, n)
		}
	case uint, uint8, uint16, uint32, uint64, uintptr:
		n := asUint64(x)
		switch verb {
		case 'd', 'v':
			return strconv.FormatUint(n, 10)
		case 'x':
			return strconv.FormatUint(n, 16)
		case 'X':
			return strings.ToUpper(strconv.FormatUint(n, 16))
		case 'c':
			return string(rune(n))
		}
	case float64:
		switch verb {
		case 'v', 'g':
			return strconv.FormatFloat(x, 'g', -1, 64)
		case 'f':
			return strconv.FormatFloat(x, 'f', 6, 64)
		}
	case *Term:
		if m.LenientSprintf {
			m.stubsHit["sprintf: symbolic number rendered as a placeholder"]++
			return "<sym>"
		}
		return giveUp("symbolic scalar")
	}
	if lenient {
		return "<?>"
	}
	unsupported("formatting %%%c of %T (%v)", verb, v, t)
	return nil
}

func isNilPtr(v value) bool {
	p, ok := v.(*value)
	return ok && p == nil
}

func (m *Machine) quote(s value, lenient bool) value {
	if x, ok := s.(string); ok {
		return strconv.Quote(x)
	}
	if lenient {
		return "<?>"
	}
	unsupported("quoting a symbolic string")
	return nil
}

// sprintf: a small formatter. Returns the string value and the %w operands.
func (m *Machine) sprintf(fr *frame, format string, args []value, lenient bool) (value, []value) {
	var out value = ""
	var wrapped []value
	argi := 0
	i := 0
	for i < len(format) {
		j := strings.IndexByte(format[i:], '%')
		if j < 0 {
			out = strCat(out, format[i:])
			break
		}
		out = strCat(out, format[i:i+j])
		i += j + 1
		if i >= len(format) {
			out = strCat(out, "%!(NOVERB)")
			break
		}
		// flags / width: only '+', '#', digits, '.' are skipped
		start := i
		for i < len(format) && strings.IndexByte("+-# 0123456789.", format[i]) >= 0 {
			i++
		}
		if i >= len(format) {
			break
		}
		flags := format[start:i]
		verb := format[i]
		i++
		if verb == '%' {
			out = strCat(out, "%")
			continue
		}
		if argi >= len(args) {
			out = strCat(out, "%!"+string(verb)+"(MISSING)")
			continue
		}
		arg := args[argi]
		argi++
		if nat, ok := nativeBasic(arg); ok && !m.hasFmtMethod(arg, verb) {
			out = strCat(out, fmt.Sprintf("%"+flags+string(verb), nat))
			if verb == 'w' {
				wrapped = append(wrapped, arg)
			}
			continue
		}
		if strings.Trim(flags, "+#") != "" && !lenient {
			unsupported("format flags %q", flags)
		}
		if verb == 'T' {
			if it, ok := arg.(iface); ok && it.t != nil {
				out = strCat(out, it.t.String())
			} else {
				out = strCat(out, "<nil>")
			}
			continue
		}
		if verb == 'w' {
			wrapped = append(wrapped, arg)
		}
		out = strCat(out, m.fmtArg(fr, verb, arg, lenient))
	}
	return out, wrapped
}

func extSprintf(fr *frame, a []value) value {
	m := fr.i
	f, ok := a[0].(string)
	if !ok {
		unsupported("Sprintf with a symbolic format")
	}
	s, _ := m.sprintf(fr, f, a[1].([]value), false)
	return s
}

func extSprint(fr *frame, a []value) value {
	m := fr.i
	var out value = ""
	for i, arg := range a[0].([]value) {
		if i > 0 {
			// Sprint adds spaces between operands when neither is a string
			_, s1 := arg.(iface).v.(string)
			_, s0 := a[0].([]value)[i-1].(iface).v.(string)
			if !s0 && !s1 {
				out = strCat(out, " ")
			}
		}
		out = strCat(out, m.fmtArg(fr, 'v', arg, false))
	}
	return out
}

// extErrorf builds the same shapes fmt.Errorf does: *errors.errorString,
// *fmt.wrapError or *fmt.wrapErrors. The message text is best effort.
func extErrorf(fr *frame, a []value) value {
	m := fr.i
	f, ok := a[0].(string)
	if !ok {
		f = "<?>"
	}
	msg, wrapped := m.sprintf(fr, f, a[1].([]value), true)
	var errs []value
	for _, w := range wrapped {
		if it, ok := w.(iface); ok && it.t != nil && types.Implements(it.t, errorIface) {
			errs = append(errs, it)
		}
	}
	fmtPkg := m.prog.ImportedPackage("fmt")
	switch {
	case len(errs) == 0 || fmtPkg == nil:
		ep := m.prog.ImportedPackage("errors")
		t := ep.Type("errorString").Type()
		s := zero(t).(structure)
		s[fieldIndex(t, "s")] = msg
		var cell value = s
		return iface{types.NewPointer(t), &cell}
	case len(errs) == 1 && len(wrapped) == 1:
		t := fmtPkg.Type("wrapError").Type()
		s := zero(t).(structure)
		s[fieldIndex(t, "msg")] = msg
		s[fieldIndex(t, "err")] = errs[0]
		var cell value = s
		return iface{types.NewPointer(t), &cell}
	default:
		t := fmtPkg.Type("wrapErrors").Type()
		s := zero(t).(structure)
		s[fieldIndex(t, "msg")] = msg
		s[fieldIndex(t, "errs")] = errs
		var cell value = s
		return iface{types.NewPointer(t), &cell}
	}
}

// ---- Frexp / Ldexp

func extFrexp(fr *frame, a []value) value {
	m := fr.i
	switch x := a[0].(type) {
	case float64:
		f, e := math.Frexp(x)
		return tuple{f, e}
	case *Term:
		return m.symFrexp(x)
	}
	panic("Frexp")
}

func extLdexp(fr *frame, a []value) value {
	x, ok1 := a[0].(float64)
	e, ok2 := a[1].(int)
	if ok1 && ok2 {
		return math.Ldexp(x, e)
	}
	unsupported("math.Ldexp on symbolic arguments")
	return nil
}

// symFrexp is a bit-level summary of math.Frexp (no FP multiplier):
// zero, Inf and NaN return (f, 0); otherwise frac in [0.5,1) and exp with
// f = frac * 2^exp. Sub-normals are normalised by a leading-zero count.
// The summary is validated against the interpreted source by the selftest.
func (m *Machine) symFrexp(x *Term) value {
	tt := m.tt
	bitsV := extFloat64bits(&frame{i: m}, []value{x})
	bits := m.toTerm(bitsV)
	expF := tt.Extract(62, 52, bits) // 11 bits
	mant := tt.Extract(51, 0, bits)  // 52 bits
	isZeroExp := tt.Eq(expF, tt.BV(0, 11))
	isMaxExp := tt.Eq(expF, tt.BV(0x7ff, 11))
	mantZero := tt.Eq(mant, tt.BV(0, 52))
	special := tt.Or(isMaxExp, tt.And(isZeroExp, mantZero))
	if m.Branch(special) {
		return tuple{value(x), 0}
	}
	sign := tt.Extract(63, 63, bits)
	half := tt.BV(1022, 11)
	if !m.Branch(isZeroExp) {
		// normal: frac = sign | 1022<<52 | mant ; exp = expF - 1022
		fb := tt.Concat(sign, tt.Concat(half, mant))
		e := tt.BVBin("bvsub", tt.ZeroExt(expF, 64), tt.BV(1022, 64))
		return tuple{fromTerm(tt.FPFromBits(fb), types.Typ[types.Float64]), fromTerm(e, types.Typ[types.Int])}
	}
	// sub-normal: mant != 0. lz = number of leading zeros of the 52-bit mantissa.
	// value = mant * 2^-1074. With p = 51 - lz the top set bit position,
	// frac mantissa = (mant << (lz+1)) & mask52, exp = p - 1074 + 1 = -1022 - lz.
	var fracBits, expT *Term
	for lz := 51; lz >= 0; lz-- {
		// condition: bit (51-lz) is the highest set bit
		sh := tt.BVBin("bvshl", mant, tt.BV(uint64(lz+1), 52))
		fb := tt.Concat(sign, tt.Concat(half, sh))
		e := tt.BV(uint64(int64(-1022-lz)), 64)
		if fracBits == nil {
			fracBits, expT = fb, e
			continue
		}
		// top bits above position 51-lz all zero and bit set  <=> mant >> (51-lz) == 1
		c := tt.Eq(tt.BVBin("bvlshr", mant, tt.BV(uint64(51-lz), 52)), tt.BV(1, 52))
		fracBits = tt.Ite(c, fb, fracBits)
		expT = tt.Ite(c, e, expT)
	}
	return tuple{fromTerm(tt.FPFromBits(fracBits), types.Typ[types.Float64]), fromTerm(expT, types.Typ[types.Int])}
}

// nativeBasic returns the Go value of a concrete basic interpreter value.
func nativeBasic(arg value) (interface{}, bool) {
	v := arg
	if it, ok := arg.(iface); ok {
		if it.t == nil {
			return nil, false
		}
		v = it.v
	}
	switch v.(type) {
	case string, bool, int, int8, int16, int32, int64, uint, uint8, uint16, uint32, uint64, uintptr, float32, float64:
		return v, true
	}
	return nil, false
}

func (m *Machine) hasFmtMethod(arg value, verb byte) bool {
	it, ok := arg.(iface)
	if !ok || it.t == nil {
		return false
	}
	if _, basic := it.t.(*types.Basic); basic {
		return false
	}
	switch verb {
	case 'v', 's', 'q', 'w':
		if f := m.findMethod(it.t, "Error"); f != nil && len(f.Params) == 1 {
			return true
		}
		if f := m.findMethod(it.t, "String"); f != nil && len(f.Params) == 1 {
			return true
		}
	}
	return false
}
