package exec

// Strings whose bytes may be symbolic.

import (
	"fmt"
	"go/types"
	"unicode/utf8"
)

func strLen(v value) int {
	switch v := v.(type) {
	case string:
		return len(v)
	case symstr:
		return len(v)
	}
	panic(fmt.Sprintf("strLen of %T", v))
}

func strAt(v value, i int) value {
	switch v := v.(type) {
	case string:
		return v[i]
	case symstr:
		return v[i]
	}
	panic(fmt.Sprintf("strAt of %T", v))
}

// strBytes returns a fresh []value holding the bytes of a string value.
func strBytes(v value) []value {
	switch v := v.(type) {
	case string:
		b := make([]value, len(v))
		for i := 0; i < len(v); i++ {
			b[i] = v[i]
		}
		return b
	case symstr:
		b := make([]value, len(v))
		copy(b, v)
		return b
	}
	panic(fmt.Sprintf("strBytes of %T", v))
}

// normStr returns a Go string if every byte is concrete, else a symstr copy.
func normStr(b []value) value {
	conc := true
	for _, e := range b {
		if _, ok := e.(uint8); !ok {
			conc = false
			break
		}
	}
	if conc {
		bs := make([]byte, len(b))
		for i, e := range b {
			bs[i] = e.(uint8)
		}
		return string(bs)
	}
	s := make(symstr, len(b))
	copy(s, b)
	return s
}

func strCat(x, y value) value {
	if xs, ok := x.(string); ok {
		if ys, ok := y.(string); ok {
			return xs + ys
		}
	}
	b := strBytes(x)
	b = append(b, strBytes(y)...)
	return normStr(b)
}

func (m *Machine) byteEq(a, b value) value {
	if x, ok := a.(uint8); ok {
		if y, ok := b.(uint8); ok {
			return x == y
		}
	}
	return fromTerm(m.tt.Eq(m.toTerm(a), m.toTerm(b)), types.Typ[types.Bool])
}

func (m *Machine) strEq(x, y value) value {
	n := strLen(x)
	if n != strLen(y) {
		return false
	}
	var acc value = true
	for i := 0; i < n; i++ {
		acc = m.andV(acc, m.byteEq(strAt(x, i), strAt(y, i)))
		if acc == false {
			return false
		}
	}
	return acc
}

// strLess is x < y (or x <= y) lexicographically, without forking.
func (m *Machine) strLess(x, y value, orEq bool) value {
	nx, ny := strLen(x), strLen(y)
	n := nx
	if ny < n {
		n = ny
	}
	tt := m.tt
	// result when the common prefix is equal
	var res *Term
	if orEq {
		res = tt.Bool(nx <= ny)
	} else {
		res = tt.Bool(nx < ny)
	}
	for i := n - 1; i >= 0; i-- {
		a, b := m.toTerm(strAt(x, i)), m.toTerm(strAt(y, i))
		res = tt.Ite(tt.BVCmp("bvult", a, b), tt.Bool(true), tt.Ite(tt.BVCmp("bvult", b, a), tt.Bool(false), res))
	}
	return fromTerm(res, types.Typ[types.Bool])
}

// ---- UTF-8 decoding on symbolic bytes (forks on the byte classes that
// runtime.decoderune / utf8.DecodeRune distinguish)

func (m *Machine) inRange(b value, lo, hi uint8) bool {
	if c, ok := b.(uint8); ok {
		return lo <= c && c <= hi
	}
	t := b.(*Term)
	tt := m.tt
	c := tt.And(tt.BVCmp("bvule", tt.BV(uint64(lo), 8), t), tt.BVCmp("bvule", t, tt.BV(uint64(hi), 8)))
	return m.Branch(c)
}

func (m *Machine) zext32(b value) *Term {
	return m.tt.ZeroExt(m.toTerm(b), 32)
}

// decodeRune decodes the rune at the start of b. Returns (rune value as
// int32 or term, size).
func (m *Machine) decodeRune(b []value) (value, int) {
	if len(b) == 0 {
		return int32(utf8.RuneError), 0
	}
	// fully concrete fast path
	conc := true
	lim := len(b)
	if lim > 4 {
		lim = 4
	}
	for i := 0; i < lim; i++ {
		if _, ok := b[i].(uint8); !ok {
			conc = false
			break
		}
	}
	if conc {
		var buf [4]byte
		for i := 0; i < lim; i++ {
			buf[i] = b[i].(uint8)
		}
		r, n := utf8.DecodeRune(buf[:lim])
		return int32(r), n
	}
	tt := m.tt
	b0 := b[0]
	mkRune := func(t *Term) value { return fromTerm(t, types.Typ[types.Int32]) }
	bad := func() (value, int) { return int32(utf8.RuneError), 1 }
	if m.inRange(b0, 0x00, 0x7F) {
		return mkRune(m.zext32(b0)), 1
	}
	if m.inRange(b0, 0xC2, 0xDF) {
		if len(b) < 2 || !m.inRange(b[1], 0x80, 0xBF) {
			return bad()
		}
		r := tt.BVBin("bvor",
			tt.BVBin("bvshl", tt.BVBin("bvand", m.zext32(b0), tt.BV(0x1F, 32)), tt.BV(6, 32)),
			tt.BVBin("bvand", m.zext32(b[1]), tt.BV(0x3F, 32)))
		return mkRune(r), 2
	}
	if m.inRange(b0, 0xE0, 0xEF) {
		if len(b) < 2 {
			return bad()
		}
		lo, hi := uint8(0x80), uint8(0xBF)
		if m.inRange(b0, 0xE0, 0xE0) {
			lo = 0xA0
		} else if m.inRange(b0, 0xED, 0xED) {
			hi = 0x9F
		}
		if !m.inRange(b[1], lo, hi) {
			return bad()
		}
		if len(b) < 3 || !m.inRange(b[2], 0x80, 0xBF) {
			return bad()
		}
		r := tt.BVBin("bvor", tt.BVBin("bvor",
			tt.BVBin("bvshl", tt.BVBin("bvand", m.zext32(b0), tt.BV(0x0F, 32)), tt.BV(12, 32)),
			tt.BVBin("bvshl", tt.BVBin("bvand", m.zext32(b[1]), tt.BV(0x3F, 32)), tt.BV(6, 32))),
			tt.BVBin("bvand", m.zext32(b[2]), tt.BV(0x3F, 32)))
		return mkRune(r), 3
	}
	if m.inRange(b0, 0xF0, 0xF4) {
		if len(b) < 2 {
			return bad()
		}
		lo, hi := uint8(0x80), uint8(0xBF)
		if m.inRange(b0, 0xF0, 0xF0) {
			lo = 0x90
		} else if m.inRange(b0, 0xF4, 0xF4) {
			hi = 0x8F
		}
		if !m.inRange(b[1], lo, hi) {
			return bad()
		}
		if len(b) < 3 || !m.inRange(b[2], 0x80, 0xBF) {
			return bad()
		}
		if len(b) < 4 || !m.inRange(b[3], 0x80, 0xBF) {
			return bad()
		}
		r := tt.BVBin("bvor", tt.BVBin("bvor", tt.BVBin("bvor",
			tt.BVBin("bvshl", tt.BVBin("bvand", m.zext32(b0), tt.BV(0x07, 32)), tt.BV(18, 32)),
			tt.BVBin("bvshl", tt.BVBin("bvand", m.zext32(b[1]), tt.BV(0x3F, 32)), tt.BV(12, 32))),
			tt.BVBin("bvshl", tt.BVBin("bvand", m.zext32(b[2]), tt.BV(0x3F, 32)), tt.BV(6, 32))),
			tt.BVBin("bvand", m.zext32(b[3]), tt.BV(0x3F, 32)))
		return mkRune(r), 4
	}
	return bad()
}

// symStringIter ranges over a string with symbolic bytes.
type symStringIter struct {
	m *Machine
	b []value
	i int
}

func (it *symStringIter) next() tuple {
	if it.i >= len(it.b) {
		return tuple{false, nil, nil}
	}
	r, n := it.m.decodeRune(it.b[it.i:])
	t := tuple{true, it.i, r}
	it.i += n
	return t
}

// encodeRune appends the UTF-8 encoding of a concrete rune.
func encodeRuneBytes(r rune) []value {
	var buf [4]byte
	n := utf8.EncodeRune(buf[:], r)
	out := make([]value, n)
	for i := 0; i < n; i++ {
		out[i] = buf[i]
	}
	return out
}

// stringFromRunes builds string([]rune) / string(rune).
func (m *Machine) stringFromRunes(rs []value) value {
	var b []value
	for _, r := range rs {
		switch r := r.(type) {
		case int32:
			b = append(b, encodeRuneBytes(r)...)
		case *Term:
			b = append(b, m.encodeRuneSym(r)...)
		default:
			panic(fmt.Sprintf("stringFromRunes: %T", r))
		}
	}
	return normStr(b)
}

// encodeRuneSym encodes a symbolic rune, forking on the length class.
func (m *Machine) encodeRuneSym(r *Term) []value {
	tt := m.tt
	c := func(v uint64) *Term { return tt.BV(v, 32) }
	b8 := func(t *Term) value { return fromTerm(tt.Extract(7, 0, t), types.Typ[types.Uint8]) }
	shr := func(t *Term, n uint64) *Term { return tt.BVBin("bvlshr", t, c(n)) }
	and := func(t *Term, k uint64) *Term { return tt.BVBin("bvand", t, c(k)) }
	or := func(t *Term, k uint64) *Term { return tt.BVBin("bvor", t, c(k)) }
	if m.Branch(tt.BVCmp("bvule", r, c(0x7F))) {
		return []value{b8(r)}
	}
	if m.Branch(tt.BVCmp("bvule", r, c(0x7FF))) {
		return []value{b8(or(shr(r, 6), 0xC0)), b8(or(and(r, 0x3F), 0x80))}
	}
	// invalid: > MaxRune (unsigned compare also covers negatives) or surrogate
	invalid := tt.Or(tt.BVCmp("bvult", c(0x10FFFF), r),
		tt.And(tt.BVCmp("bvule", c(0xD800), r), tt.BVCmp("bvule", r, c(0xDFFF))))
	if m.Branch(invalid) {
		return encodeRuneBytes(utf8.RuneError)
	}
	if m.Branch(tt.BVCmp("bvule", r, c(0xFFFF))) {
		return []value{b8(or(shr(r, 12), 0xE0)), b8(or(and(shr(r, 6), 0x3F), 0x80)), b8(or(and(r, 0x3F), 0x80))}
	}
	return []value{b8(or(shr(r, 18), 0xF0)), b8(or(and(shr(r, 12), 0x3F), 0x80)), b8(or(and(shr(r, 6), 0x3F), 0x80)), b8(or(and(r, 0x3F), 0x80))}
}
