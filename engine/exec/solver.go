package exec

// One persistent SMT solver process per worker, spoken to over a pipe.

import (
	"bufio"
	"fmt"
	"io"
	"os"
	osexec "os/exec"
	"strconv"
	"strings"
	"time"
)

type SatResult int

const (
	Unsat SatResult = iota
	Sat
	Unknown // timeout, unknown, or solver error: inconclusive
)

func (r SatResult) String() string { return [...]string{"unsat", "sat", "unknown"}[r] }

type SolverStats struct {
	Sat, Unsat, Unknown, Errors int
	Time                        time.Duration
	Slowest                     time.Duration
}

type Solver struct {
	kind   string
	cmd    *osexec.Cmd
	in     *bufio.Writer
	inRaw  io.WriteCloser
	out    *bufio.Reader
	scopes [][]*Term // terms emitted per open scope (index 0 = base)
	Stats  SolverStats
	log    io.Writer
	dead   bool
	seq    int
}

// NewSolver starts kind = "z3" | "z3-new" | "cvc5" with a per-query timeout.
func NewSolver(kind string, timeoutMS int, logw io.Writer) (*Solver, error) {
	var cmd *osexec.Cmd
	switch kind {
	case "z3", "z3-new":
		cmd = osexec.Command(kind, "-in", "-smt2")
	case "cvc5":
		cmd = osexec.Command("cvc5", "--incremental", "--lang", "smt2", "--produce-models", fmt.Sprintf("--tlimit-per=%d", timeoutMS))
	default:
		return nil, fmt.Errorf("unknown solver %q", kind)
	}
	inp, err := cmd.StdinPipe()
	if err != nil {
		return nil, err
	}
	outp, err := cmd.StdoutPipe()
	if err != nil {
		return nil, err
	}
	cmd.Stderr = os.Stderr
	if err := cmd.Start(); err != nil {
		return nil, err
	}
	s := &Solver{kind: kind, cmd: cmd, in: bufio.NewWriterSize(inp, 1<<16), inRaw: inp, out: bufio.NewReaderSize(outp, 1<<16), log: logw}
	s.scopes = [][]*Term{nil}
	if kind == "cvc5" {
		s.send("(set-logic ALL)")
	} else {
		s.send(fmt.Sprintf("(set-option :timeout %d)", timeoutMS))
	}
	return s, nil
}

func (s *Solver) Close() {
	if s.dead {
		return
	}
	s.dead = true
	s.in.Flush()
	s.inRaw.Close()
	done := make(chan struct{})
	go func() { s.cmd.Wait(); close(done) }()
	select {
	case <-done:
	case <-time.After(2 * time.Second):
		s.cmd.Process.Kill()
		<-done
	}
}

func (s *Solver) send(line string) {
	if s.log != nil {
		fmt.Fprintln(s.log, line)
	}
	s.in.WriteString(line)
	s.in.WriteByte('\n')
}

// emit makes sure t and its sub-terms are defined in the solver.
func (s *Solver) emit(t *Term) {
	if t.epoch != 0 || t.Op == "const" {
		return
	}
	for _, a := range t.Args {
		s.emit(a)
	}
	if t.Op == "var" {
		s.send(fmt.Sprintf("(declare-const %s %s)", t.Name, t.S.smt()))
	} else {
		// a named constant constrained by an equation, not a define-fun macro:
		// z3 expands macros at every use, which turns the shared DAG of nested
		// table look-ups (ite chains) into an exponentially larger tree
		s.send(fmt.Sprintf("(declare-const t%d %s)", t.id, t.S.smt()))
		s.send(fmt.Sprintf("(assert (= t%d %s))", t.id, t.body()))
	}
	t.epoch = 1
	top := len(s.scopes) - 1
	s.scopes[top] = append(s.scopes[top], t)
}

func (s *Solver) Push() {
	s.send("(push 1)")
	s.scopes = append(s.scopes, nil)
}

func (s *Solver) Pop() {
	s.send("(pop 1)")
	top := len(s.scopes) - 1
	for _, t := range s.scopes[top] {
		t.epoch = 0
	}
	s.scopes = s.scopes[:top]
}

func (s *Solver) Depth() int { return len(s.scopes) - 1 }

func (s *Solver) Assert(t *Term) {
	if t.S.K != SBool {
		panic("assert of non-bool")
	}
	s.emit(t)
	s.send("(assert " + t.ref() + ")")
}

// roundTrip sends a marker and collects all output lines up to it.
func (s *Solver) roundTrip() ([]string, error) {
	s.seq++
	marker := fmt.Sprintf("#E%d", s.seq)
	s.send(fmt.Sprintf("(echo \"%s\")", marker))
	if err := s.in.Flush(); err != nil {
		return nil, err
	}
	var lines []string
	for {
		line, err := s.out.ReadString('\n')
		if err != nil {
			return lines, err
		}
		line = strings.TrimSpace(line)
		if strings.Trim(line, "\"") == marker {
			return lines, nil
		}
		if line != "" {
			lines = append(lines, line)
		}
	}
}

// Check runs (check-sat) in the current context.
func (s *Solver) Check() SatResult {
	if s.dead {
		s.Stats.Unknown++
		return Unknown
	}
	t0 := time.Now()
	s.send("(check-sat)")
	lines, err := s.roundTrip()
	d := time.Since(t0)
	s.Stats.Time += d
	if d > s.Stats.Slowest {
		s.Stats.Slowest = d
	}
	res := Unknown
	bad := err != nil
	for _, l := range lines {
		switch {
		case l == "sat":
			res = Sat
		case l == "unsat":
			res = Unsat
		case l == "unknown":
			res = Unknown
		case strings.HasPrefix(l, "(error"):
			bad = true
			fmt.Fprintf(os.Stderr, "SOLVER-ERROR: %s\n", l)
		}
	}
	if err != nil {
		fmt.Fprintf(os.Stderr, "SOLVER-IO-ERROR: %v\n", err)
		s.dead = true
	}
	if bad {
		s.Stats.Errors++
		res = Unknown
	}
	switch res {
	case Sat:
		s.Stats.Sat++
	case Unsat:
		s.Stats.Unsat++
	default:
		s.Stats.Unknown++
	}
	return res
}

// GetValues returns the model values (bit patterns) of the given variables.
// Must follow a Check that returned Sat, in the same context.
func (s *Solver) GetValues(vars []*Term) (map[string]uint64, error) {
	res := make(map[string]uint64)
	if len(vars) == 0 {
		return res, nil
	}
	var sb strings.Builder
	sb.WriteString("(get-value (")
	for _, v := range vars {
		s.emit(v)
		sb.WriteString(v.ref())
		sb.WriteByte(' ')
	}
	sb.WriteString("))")
	s.send(sb.String())
	lines, err := s.roundTrip()
	if err != nil {
		return nil, err
	}
	txt := strings.Join(lines, " ")
	if strings.Contains(txt, "(error") {
		return nil, fmt.Errorf("get-value: %s", txt)
	}
	toks := tokenize(txt)
	// expected shape: ( ( name value ) ( name value ) ... )
	i := 0
	expect := func(t string) bool {
		if i < len(toks) && toks[i] == t {
			i++
			return true
		}
		return false
	}
	if !expect("(") {
		return nil, fmt.Errorf("get-value parse: %s", txt)
	}
	for i < len(toks) && toks[i] == "(" {
		i++
		name := toks[i]
		i++
		v, ni, err := parseValue(toks, i)
		if err != nil {
			return nil, fmt.Errorf("get-value parse %s: %v in %s", name, err, txt)
		}
		i = ni
		if !expect(")") {
			return nil, fmt.Errorf("get-value parse: missing ) after %s", name)
		}
		res[name] = v
	}
	return res, nil
}

func tokenize(s string) []string {
	var toks []string
	i := 0
	for i < len(s) {
		c := s[i]
		switch {
		case c == '(' || c == ')':
			toks = append(toks, string(c))
			i++
		case c == ' ' || c == '\t' || c == '\n':
			i++
		default:
			j := i
			for j < len(s) && s[j] != '(' && s[j] != ')' && s[j] != ' ' && s[j] != '\t' && s[j] != '\n' {
				j++
			}
			toks = append(toks, s[i:j])
			i = j
		}
	}
	return toks
}

func parseValue(toks []string, i int) (uint64, int, error) {
	if i >= len(toks) {
		return 0, i, fmt.Errorf("eof")
	}
	t := toks[i]
	switch {
	case t == "true":
		return 1, i + 1, nil
	case t == "false":
		return 0, i + 1, nil
	case strings.HasPrefix(t, "#x"):
		v, err := strconv.ParseUint(t[2:], 16, 64)
		return v, i + 1, err
	case strings.HasPrefix(t, "#b"):
		v, err := strconv.ParseUint(t[2:], 2, 64)
		return v, i + 1, err
	case t == "(":
		// (_ bvN w)
		if i+4 < len(toks) && toks[i+1] == "_" && strings.HasPrefix(toks[i+2], "bv") && toks[i+4] == ")" {
			v, err := strconv.ParseUint(toks[i+2][2:], 10, 64)
			return v, i + 5, err
		}
	}
	return 0, i, fmt.Errorf("unsupported value token %q", t)
}
