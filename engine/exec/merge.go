package exec

import (
	"go/token"

	"golang.org/x/tools/go/ssa"
)

// callMerged explores a pure callee in a nested search and merges the
// results into one ite term (see DESIGN 2.4). Not merged (ok=false) when the
// arguments are concrete.
func (m *Machine) callMerged(fr *frame, caller *frame, callpos token.Pos, fn *ssa.Function, args []value) (value, bool) {
	return nil, false
}
