package exec

// The harness-facing "verif non-det" API, intercepted by name.

import (
	"fmt"
	"go/token"
	"go/types"
)

type vndFn func(fr *frame, args []value) value

var vndFuncs map[string]vndFn

func init() {
	vndFuncs = map[string]vndFn{
		"vndBool":     func(fr *frame, a []value) value { return fr.i.freshVar("bool", sortBool) },
		"vndU8":       func(fr *frame, a []value) value { return fr.i.freshVar("u8", bvSort(8)) },
		"vndU16":      func(fr *frame, a []value) value { return fr.i.freshVar("u16", bvSort(16)) },
		"vndU32":      func(fr *frame, a []value) value { return fr.i.freshVar("u32", bvSort(32)) },
		"vndU64":      func(fr *frame, a []value) value { return fr.i.freshVar("u64", bvSort(64)) },
		"vndI64":      func(fr *frame, a []value) value { return fr.i.freshVar("i64", bvSort(64)) },
		"vndI32":      func(fr *frame, a []value) value { return fr.i.freshVar("i32", bvSort(32)) },
		"vndF64":      vndF64,
		"vndInt":      vndInt,
		"vndChoice":   vndChoice,
		"vndString":   vndString,
		"vndStringN":  vndStringN,
		"vndBytes":    vndBytes,
		"vndAssume":   vndAssume,
		"vndAssert":   vndAssert,
		"vndReach":    vndReach,
		"vndAnd":      func(fr *frame, a []value) value { return fr.i.andV(a[0], a[1]) },
		"vndOr":       func(fr *frame, a []value) value { return fr.i.orV(a[0], a[1]) },
		"vndNot":      func(fr *frame, a []value) value { return fr.i.notV(a[0]) },
		"vndImplies":  func(fr *frame, a []value) value { return fr.i.orV(fr.i.notV(a[0]), a[1]) },
		"vndIte":      vndIte,
		"vndIteInt":   vndIte,
		"vndIteI64":   vndIte,
		"vndIteU64":   vndIte,
		"vndIteU8":    vndIte,
		"vndIteF64":   vndIte,
		"vndYield":    func(fr *frame, a []value) value { fr.i.voluntaryYield(); return nil },
		"vndSymbolic": func(fr *frame, a []value) value { return true },
		"vndConcrete": vndConcrete,
		// ghost state of harnesses: plain accesses that the race check ignores
		"vndGhostStore": func(fr *frame, a []value) value {
			p := a[0].(*value)
			fr.i.setCell(p, a[1])
			return nil
		},
		"vndGhostLoad": func(fr *frame, a []value) value { return *(a[0].(*value)) },
		// a ghost section: the closure runs without scheduling points and is
		// invisible to the race check (harness ledgers updated "at the instant"
		// of the call they describe)
		"vndGhost": func(fr *frame, a []value) value {
			m := fr.i
			m.ghostDepth++
			defer func() { m.ghostDepth-- }()
			call(m, fr, token.NoPos, a[0], nil)
			return nil
		},
		"vndParam": func(fr *frame, a []value) value {
			if v, ok := fr.i.limits.Params[a[0].(string)]; ok {
				return v
			}
			return a[1]
		},
		"vndRaceOn": func(fr *frame, a []value) value {
			if fr.i.sched != nil {
				fr.i.sched.raceOn = a[0].(bool)
			}
			return nil
		},
		"vndSetEnv": func(fr *frame, a []value) value {
			m := fr.i
			k := a[0].(string)
			old, had := m.env[k]
			m.logUndo(func() {
				if had {
					m.env[k] = old
				} else {
					delete(m.env, k)
				}
			})
			m.env[k] = a[1]
			return nil
		},
		"vndUnsetEnv": func(fr *frame, a []value) value {
			m := fr.i
			k := a[0].(string)
			old, had := m.env[k]
			if had {
				m.logUndo(func() { m.env[k] = old })
				delete(m.env, k)
			}
			return nil
		},
		"vndClockSymbolic": func(fr *frame, a []value) value {
			fr.i.clockSymbolic = a[0].(bool)
			return nil
		},
		// the current reading of the virtual monotonic clock, without advancing it
		"vndClockPeek": func(fr *frame, a []value) value {
			v := fr.i.clockVal()
			if t, ok := v.(*Term); ok {
				return fromTerm(t, types.Typ[types.Int64])
			}
			return asInt64(v)
		},
		"vndGoexitOthers": func(fr *frame, a []value) value { return nil },
		"vndLog": func(fr *frame, a []value) value {
			if fr.i.Log != nil {
				fr.i.logf("harness: %s", toString(a[0]))
			}
			return nil
		},
	}
}

func vndF64(fr *frame, a []value) value {
	m := fr.i
	bits := m.freshVar("f64", bvSort(64))
	return m.tt.FPFromBits(bits)
}

// vndInt(lo, hi): a symbolic int in [lo, hi].
func vndInt(fr *frame, a []value) value {
	m := fr.i
	lo, hi := asInt64(a[0]), asInt64(a[1])
	if lo > hi {
		panic(pathAbort{abInfeasible, "vndInt: empty range"})
	}
	if lo == hi {
		m.recordChoiceInput("int", int(lo))
		return int(lo)
	}
	v := m.freshVar("int", bvSort(64))
	tt := m.tt
	m.Assume(tt.And(tt.BVCmp("bvsle", tt.BV(uint64(lo), 64), v), tt.BVCmp("bvsle", v, tt.BV(uint64(hi), 64))))
	return v
}

// vndChoice(n): an enumerated choice 0..n-1 (one path each).
func vndChoice(fr *frame, a []value) value {
	m := fr.i
	n := int(asInt64(a[0]))
	c := m.Choose(n)
	m.recordChoiceInput("choice", c)
	return c
}

func (m *Machine) freshBytes(n int) []value {
	b := make([]value, n)
	for i := range b {
		b[i] = m.freshVar("u8", bvSort(8))
	}
	return b
}

// vndString(max): arbitrary bytes, every length 0..max (forks on length).
func vndString(fr *frame, a []value) value {
	m := fr.i
	max := int(asInt64(a[0]))
	n := m.Choose(max + 1)
	m.recordChoiceInput("len", n)
	return normStr(m.freshBytes(n))
}

func vndStringN(fr *frame, a []value) value {
	m := fr.i
	n := int(asInt64(a[0]))
	return normStr(m.freshBytes(n))
}

func vndBytes(fr *frame, a []value) value {
	m := fr.i
	max := int(asInt64(a[0]))
	n := m.Choose(max + 1)
	m.recordChoiceInput("len", n)
	return m.freshBytes(n)
}

func vndAssume(fr *frame, a []value) value {
	m := fr.i
	switch c := a[0].(type) {
	case bool:
		if !c {
			panic(pathAbort{abInfeasible, "assume false"})
		}
	case *Term:
		m.Assume(c)
	}
	return nil
}

func vndAssert(fr *frame, a []value) value {
	m := fr.i
	label := fmt.Sprint(a[1])
	switch c := a[0].(type) {
	case bool:
		m.Assert(m.tt.Bool(c), label)
	case *Term:
		m.Assert(c, label)
	}
	return nil
}

func vndReach(fr *frame, a []value) value {
	fr.i.Reach(a[0].(string))
	return nil
}

func vndIte(fr *frame, a []value) value {
	m := fr.i
	switch c := a[0].(type) {
	case bool:
		if c {
			return a[1]
		}
		return a[2]
	case *Term:
		x, y := a[1], a[2]
		if !isScalar(x) || !isScalar(y) {
			if m.Branch(c) {
				return x
			}
			return y
		}
		r := m.tt.Ite(c, m.toTerm(x), m.toTerm(y))
		return fromTerm(r, fr.fn.Signature.Results().At(0).Type())
	}
	panic("vndIte")
}

// vndConcrete(x int) int: enumerate the feasible values of x.
func vndConcrete(fr *frame, a []value) value {
	m := fr.i
	if t, ok := a[0].(*Term); ok {
		v := m.Concretize(t)
		return fromTerm(m.tt.BV(v, t.S.W), fr.fn.Signature.Results().At(0).Type())
	}
	return a[0]
}

var _ = types.Typ
