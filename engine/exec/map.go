package exec

// Interpreted maps are insertion-ordered association lists with structural,
// possibly symbolic, key equality. Nothing is ever hashed.

import (
	"fmt"
	"go/types"

	"golang.org/x/tools/go/ssa"
)

type mapEntry struct {
	key, val value
	deleted  bool
}

type amap struct {
	kt      types.Type
	entries []*mapEntry
	n       int
}

func newAmap(kt types.Type) *amap { return &amap{kt: kt} }

func (mp *amap) len() int {
	if mp == nil {
		return 0
	}
	return mp.n
}

// find returns the entry whose key equals k, forking on symbolic equalities.
func (m *Machine) mapFind(mp *amap, k value) *mapEntry {
	if mp == nil {
		return nil
	}
	if it, ok := k.(iface); ok && it.t != nil && it.t != rtypeType && !types.Comparable(it.t) {
		panic(targetRuntimeError(fmt.Sprintf("hash of unhashable type %s", it.t)))
	}
	for _, e := range mp.entries {
		if e.deleted {
			continue
		}
		eq := m.equalsV(mp.kt, e.key, k)
		if m.truth(eq) {
			return e
		}
	}
	return nil
}

func (m *Machine) mapInsert(mp *amap, k, v value) {
	if e := m.mapFind(mp, k); e != nil {
		old := e.val
		m.logUndo(func() { e.val = old })
		e.val = v
		return
	}
	e := &mapEntry{key: k, val: v}
	mp.entries = append(mp.entries, e)
	mp.n++
	m.logUndo(func() { mp.entries = mp.entries[:len(mp.entries)-1]; mp.n-- })
}

func (m *Machine) mapDelete(mp *amap, k value) {
	if mp == nil {
		return
	}
	if e := m.mapFind(mp, k); e != nil {
		e.deleted = true
		mp.n--
		m.logUndo(func() { e.deleted = false; mp.n++ })
	}
	// compact occasionally (not undone structurally: entries stay reachable)
}

func (m *Machine) mapClear(mp *amap) {
	if mp == nil {
		return
	}
	for _, e := range mp.entries {
		if !e.deleted {
			e := e
			e.deleted = true
			mp.n--
			m.logUndo(func() { e.deleted = false; mp.n++ })
		}
	}
}

// lookup returns x[idx] where x is a map.
func (m *Machine) lookup(instr *ssa.Lookup, x, idx value) value {
	switch x := x.(type) {
	case *amap:
		var v value
		ok := false
		if e := m.mapFind(x, idx); e != nil {
			v, ok = e.val, true
		} else {
			v = zero(instr.X.Type().Underlying().(*types.Map).Elem())
		}
		if instr.CommaOk {
			v = tuple{v, ok}
		}
		return v
	case string, symstr:
		return m.index(x, idx, instr.Index.Type())
	}
	panic(fmt.Sprintf("unexpected x type in Lookup: %T", x))
}

type amapIter struct {
	mp   *amap
	snap []*mapEntry
	i    int
}

func (it *amapIter) next() tuple {
	for it.i < len(it.snap) {
		e := it.snap[it.i]
		it.i++
		if !e.deleted {
			return tuple{true, e.key, e.val}
		}
	}
	return tuple{false, nil, nil}
}

func newAmapIter(mp *amap) iter {
	it := &amapIter{mp: mp}
	if mp != nil {
		it.snap = append(it.snap, mp.entries...)
	}
	return it
}
