package exec

// Symbolic counterparts of the interpreter's operators.

import (
	"fmt"
	"go/token"
	"go/types"
	"math"
	"unsafe"

	"golang.org/x/tools/go/ssa"
)

// symstr is a string some of whose bytes are symbolic. Elements are uint8 or
// *Term of sort (_ BitVec 8). Immutable once built.
type symstr []value

type basicInfo struct {
	w       int
	signed  bool
	float   bool
	boolean bool
	str     bool
	ok      bool
}

func basicOf(t types.Type) basicInfo {
	b, ok := t.Underlying().(*types.Basic)
	if !ok {
		return basicInfo{}
	}
	switch b.Kind() {
	case types.Bool, types.UntypedBool:
		return basicInfo{boolean: true, ok: true}
	case types.Int, types.Int64, types.UntypedInt:
		return basicInfo{w: 64, signed: true, ok: true}
	case types.Int8:
		return basicInfo{w: 8, signed: true, ok: true}
	case types.Int16:
		return basicInfo{w: 16, signed: true, ok: true}
	case types.Int32, types.UntypedRune:
		return basicInfo{w: 32, signed: true, ok: true}
	case types.Uint, types.Uint64, types.Uintptr:
		return basicInfo{w: 64, ok: true}
	case types.Uint8:
		return basicInfo{w: 8, ok: true}
	case types.Uint16:
		return basicInfo{w: 16, ok: true}
	case types.Uint32:
		return basicInfo{w: 32, ok: true}
	case types.Float64, types.UntypedFloat:
		return basicInfo{w: 64, float: true, ok: true}
	case types.Float32:
		return basicInfo{w: 32, float: true, ok: true}
	case types.String, types.UntypedString:
		return basicInfo{str: true, ok: true}
	}
	return basicInfo{}
}

// toTerm converts a scalar value to a term.
func (m *Machine) toTerm(v value) *Term {
	tt := m.tt
	switch v := v.(type) {
	case *Term:
		return v
	case bool:
		return tt.Bool(v)
	case int:
		return tt.BV(uint64(v), 64)
	case int8:
		return tt.BV(uint64(v), 8)
	case int16:
		return tt.BV(uint64(v), 16)
	case int32:
		return tt.BV(uint64(v), 32)
	case int64:
		return tt.BV(uint64(v), 64)
	case uint:
		return tt.BV(uint64(v), 64)
	case uint8:
		return tt.BV(uint64(v), 8)
	case uint16:
		return tt.BV(uint64(v), 16)
	case uint32:
		return tt.BV(uint64(v), 32)
	case uint64:
		return tt.BV(v, 64)
	case uintptr:
		return tt.BV(uint64(v), 64)
	case float64:
		return tt.F64(v)
	case float32:
		return tt.F32(v)
	}
	panic(fmt.Sprintf("toTerm of %T", v))
}

// fromTerm turns a constant term back into a concrete value of type t.
func fromTerm(tm *Term, t types.Type) value {
	if !tm.IsConst() {
		return tm
	}
	b, ok := t.Underlying().(*types.Basic)
	if !ok {
		panic(fmt.Sprintf("fromTerm: %v", t))
	}
	switch b.Kind() {
	case types.Bool, types.UntypedBool:
		return tm.V == 1
	case types.Int, types.UntypedInt:
		return int(tm.V)
	case types.Int8:
		return int8(tm.V)
	case types.Int16:
		return int16(tm.V)
	case types.Int32, types.UntypedRune:
		return int32(tm.V)
	case types.Int64:
		return int64(tm.V)
	case types.Uint:
		return uint(tm.V)
	case types.Uint8:
		return uint8(tm.V)
	case types.Uint16:
		return uint16(tm.V)
	case types.Uint32:
		return uint32(tm.V)
	case types.Uint64:
		return tm.V
	case types.Uintptr:
		return uintptr(tm.V)
	case types.Float64, types.UntypedFloat:
		return math.Float64frombits(tm.V)
	case types.Float32:
		return math.Float32frombits(uint32(tm.V))
	}
	panic(fmt.Sprintf("fromTerm: %v", t))
}

func isSym(v value) bool {
	switch v.(type) {
	case *Term, symstr:
		return true
	}
	return false
}

// boolV combines (possibly symbolic) booleans.
func (m *Machine) andV(a, b value) value {
	if x, ok := a.(bool); ok {
		if !x {
			return false
		}
		return b
	}
	if y, ok := b.(bool); ok {
		if !y {
			return false
		}
		return a
	}
	return fromTerm(m.tt.And(a.(*Term), b.(*Term)), types.Typ[types.Bool])
}

func (m *Machine) orV(a, b value) value {
	if x, ok := a.(bool); ok {
		if x {
			return true
		}
		return b
	}
	if y, ok := b.(bool); ok {
		if y {
			return true
		}
		return a
	}
	return fromTerm(m.tt.Or(a.(*Term), b.(*Term)), types.Typ[types.Bool])
}

func (m *Machine) notV(a value) value {
	if x, ok := a.(bool); ok {
		return !x
	}
	return fromTerm(m.tt.Not(a.(*Term)), types.Typ[types.Bool])
}

// binop implements binary operators on possibly symbolic operands.
func (m *Machine) binop(op token.Token, t types.Type, x, y value, ty types.Type) value {
	switch op {
	case token.EQL:
		return m.eqV(t, x, y)
	case token.NEQ:
		return m.notV(m.eqV(t, x, y))
	}
	if !isSym(x) && !isSym(y) {
		switch op {
		case token.QUO, token.REM:
			if isIntZero(y) {
				panic(targetRuntimeError("integer divide by zero"))
			}
		case token.SHL, token.SHR:
			if _, ok := asUnsigned(y); !ok {
				panic(targetRuntimeError("negative shift amount"))
			}
		}
		return binop(op, t, x, y)
	}
	bi := basicOf(t)
	if !bi.ok {
		panic(fmt.Sprintf("symbolic binop %s on %v", op, t))
	}
	tt := m.tt
	if bi.str {
		switch op {
		case token.ADD:
			return strCat(x, y)
		case token.LSS:
			return m.strLess(x, y, false)
		case token.LEQ:
			return m.strLess(x, y, true)
		case token.GTR:
			return m.strLess(y, x, false)
		case token.GEQ:
			return m.strLess(y, x, true)
		}
		panic(fmt.Sprintf("symbolic string op %s", op))
	}
	if bi.float {
		a, b := m.toTerm(x), m.toTerm(y)
		var r *Term
		switch op {
		case token.ADD:
			r = tt.FPBin("fp.add", a, b)
		case token.SUB:
			r = tt.FPBin("fp.sub", a, b)
		case token.MUL:
			r = tt.FPBin("fp.mul", a, b)
		case token.QUO:
			r = tt.FPBin("fp.div", a, b)
		case token.LSS:
			return fromTerm(tt.FPCmp("fp.lt", a, b), types.Typ[types.Bool])
		case token.LEQ:
			return fromTerm(tt.FPCmp("fp.leq", a, b), types.Typ[types.Bool])
		case token.GTR:
			return fromTerm(tt.FPCmp("fp.lt", b, a), types.Typ[types.Bool])
		case token.GEQ:
			return fromTerm(tt.FPCmp("fp.leq", b, a), types.Typ[types.Bool])
		default:
			panic(fmt.Sprintf("symbolic float op %s", op))
		}
		return fromTerm(r, t)
	}
	if bi.boolean {
		panic(fmt.Sprintf("symbolic bool op %s", op))
	}
	a := m.toTerm(x)
	switch op {
	case token.SHL, token.SHR:
		return m.symShift(op, t, bi, a, y, ty)
	}
	b := m.toTerm(y)
	var r *Term
	switch op {
	case token.ADD:
		r = tt.BVBin("bvadd", a, b)
	case token.SUB:
		r = tt.BVBin("bvsub", a, b)
	case token.MUL:
		r = tt.BVBin("bvmul", a, b)
	case token.QUO, token.REM:
		zero := tt.BV(0, bi.w)
		if m.Branch(tt.Eq(b, zero)) {
			panic(targetRuntimeError("integer divide by zero"))
		}
		switch {
		case op == token.QUO && bi.signed:
			r = tt.BVBin("bvsdiv", a, b)
		case op == token.QUO:
			r = tt.BVBin("bvudiv", a, b)
		case bi.signed:
			r = tt.BVBin("bvsrem", a, b)
		default:
			r = tt.BVBin("bvurem", a, b)
		}
	case token.AND:
		r = tt.BVBin("bvand", a, b)
	case token.OR:
		r = tt.BVBin("bvor", a, b)
	case token.XOR:
		r = tt.BVBin("bvxor", a, b)
	case token.AND_NOT:
		r = tt.BVBin("bvand", a, tt.BVNot(b))
	case token.LSS, token.LEQ, token.GTR, token.GEQ:
		var c *Term
		lt, le := "bvult", "bvule"
		if bi.signed {
			lt, le = "bvslt", "bvsle"
		}
		switch op {
		case token.LSS:
			c = tt.BVCmp(lt, a, b)
		case token.LEQ:
			c = tt.BVCmp(le, a, b)
		case token.GTR:
			c = tt.BVCmp(lt, b, a)
		case token.GEQ:
			c = tt.BVCmp(le, b, a)
		}
		return fromTerm(c, types.Typ[types.Bool])
	default:
		panic(fmt.Sprintf("symbolic int op %s", op))
	}
	return fromTerm(r, t)
}

func (m *Machine) symShift(op token.Token, t types.Type, bi basicInfo, a *Term, y value, ty types.Type) value {
	tt := m.tt
	yi := basicOf(ty)
	b := m.toTerm(y)
	if yi.signed {
		if m.Branch(tt.BVCmp("bvslt", b, tt.BV(0, b.S.W))) {
			panic(targetRuntimeError("negative shift amount"))
		}
	}
	w := bi.w
	var amt *Term
	var over *Term // shift count >= width
	if b.S.W > w {
		over = tt.BVCmp("bvule", tt.BV(uint64(w), b.S.W), b)
		amt = tt.Extract(w-1, 0, b)
	} else {
		amt = tt.ZeroExt(b, w)
		over = tt.Bool(false)
	}
	var r *Term
	switch {
	case op == token.SHL:
		r = tt.Ite(over, tt.BV(0, w), tt.BVBin("bvshl", a, amt))
	case bi.signed:
		r = tt.Ite(over, tt.BVBin("bvashr", a, tt.BV(uint64(w-1), w)), tt.BVBin("bvashr", a, amt))
	default:
		r = tt.Ite(over, tt.BV(0, w), tt.BVBin("bvlshr", a, amt))
	}
	return fromTerm(r, t)
}

func isIntZero(v value) bool {
	switch v := v.(type) {
	case int:
		return v == 0
	case int8:
		return v == 0
	case int16:
		return v == 0
	case int32:
		return v == 0
	case int64:
		return v == 0
	case uint:
		return v == 0
	case uint8:
		return v == 0
	case uint16:
		return v == 0
	case uint32:
		return v == 0
	case uint64:
		return v == 0
	case uintptr:
		return v == 0
	}
	return false
}

// eqV is Go's == for type t on possibly symbolic values; the result is a bool
// or a Bool term.
func (m *Machine) eqV(t types.Type, x, y value) value {
	switch t.Underlying().(type) {
	case *types.Map, *types.Signature, *types.Slice:
		return eqnil(t, x, y)
	}
	return m.equalsV(t, x, y)
}

func (m *Machine) equalsV(t types.Type, x, y value) value {
	tt := m.tt
	switch x := x.(type) {
	case *Term:
		return m.scalarEq(x, m.toTerm(y))
	case symstr:
		return m.strEq(x, y)
	case string:
		if ys, ok := y.(symstr); ok {
			return m.strEq(x, ys)
		}
		return x == y.(string)
	case structure:
		ys := y.(structure)
		st := t.Underlying().(*types.Struct)
		var acc value = true
		for i, n := 0, st.NumFields(); i < n; i++ {
			f := st.Field(i)
			if f.Name() == "_" {
				continue
			}
			acc = m.andV(acc, m.equalsV(f.Type(), x[i], ys[i]))
			if acc == false {
				return false
			}
		}
		return acc
	case array:
		ya := y.(array)
		et := t.Underlying().(*types.Array).Elem()
		var acc value = true
		for i := range x {
			acc = m.andV(acc, m.equalsV(et, x[i], ya[i]))
			if acc == false {
				return false
			}
		}
		return acc
	case iface:
		yi := y.(iface)
		if !sameType(x.t, yi.t) {
			return false
		}
		if x.t == nil {
			return true
		}
		if x.t == rtypeType {
			return x.v.(rtype).eq(t, yi.v)
		}
		if !types.Comparable(x.t) {
			panic(targetRuntimeError(fmt.Sprintf("comparing uncomparable type %s", x.t)))
		}
		return m.equalsV(x.t, x.v, yi.v)
	case rtype:
		return x.eq(t, y)
	case *value:
		return x == y.(*value)
	case *channel:
		return x == y.(*channel)
	case *amap:
		return x == y.(*amap)
	case unsafe.Pointer:
		return x == y.(unsafe.Pointer)
	case *ssa.Function, *closure, *ssa.Builtin:
		return eqnil(t, x, y)
	}
	if yt, ok := y.(*Term); ok {
		return m.scalarEq(m.toTerm(x), yt)
	}
	_ = tt
	return equals(t, x, y)
}

func (m *Machine) scalarEq(a, b *Term) value {
	var c *Term
	if a.S.K == SFP {
		c = m.tt.FPCmp("fp.eq", a, b)
	} else {
		c = m.tt.Eq(a, b)
	}
	return fromTerm(c, types.Typ[types.Bool])
}

// ---- unary

func (m *Machine) symUnop(op token.Token, t types.Type, x *Term) value {
	tt := m.tt
	switch op {
	case token.SUB:
		if x.S.K == SFP {
			return fromTerm(tt.FPNeg(x), t)
		}
		return fromTerm(tt.BVNeg(x), t)
	case token.NOT:
		return fromTerm(tt.Not(x), t)
	case token.XOR:
		return fromTerm(tt.BVNot(x), t)
	}
	panic(fmt.Sprintf("symbolic unop %s", op))
}

// ---- conversions of symbolic scalars

func (m *Machine) symConv(tDst, tSrc types.Type, x *Term) value {
	tt := m.tt
	s, d := basicOf(tSrc), basicOf(tDst)
	if !s.ok || !d.ok {
		panic(fmt.Sprintf("symbolic conversion %v -> %v", tSrc, tDst))
	}
	switch {
	case d.str:
		// string(rune) with symbolic rune
		v := m.Concretize(x)
		return string(rune(sext(v, x.S.W)))
	case s.boolean && d.boolean:
		return x
	case !s.float && !d.float:
		var r *Term
		if d.w <= s.w {
			r = tt.Extract(d.w-1, 0, x)
		} else if s.signed {
			r = tt.SignExt(x, d.w)
		} else {
			r = tt.ZeroExt(x, d.w)
		}
		return fromTerm(r, tDst)
	case !s.float && d.float:
		return fromTerm(tt.FPFromInt(x, s.signed, Sort{SFP, d.w}), tDst)
	case s.float && d.float:
		return fromTerm(tt.FPToFP(x, Sort{SFP, d.w}), tDst)
	case s.float && !d.float:
		// Go: out-of-range and NaN conversions are implementation-defined.
		// Guard: the value (truncated) must be representable; otherwise
		// the path is flagged as depending on implementation-defined behaviour.
		var lo, hi float64
		if d.signed {
			lo = -math.Ldexp(1, d.w-1) // inclusive
			hi = math.Ldexp(1, d.w-1)  // exclusive
		} else {
			lo = -1 // exclusive (values in (-1,0) truncate to 0)
			hi = math.Ldexp(1, d.w)
		}
		fs := x.S
		var inRange *Term
		if d.signed {
			inRange = tt.And(tt.FPCmp("fp.leq", tt.fpConst(fs, lo), x), tt.FPCmp("fp.lt", x, tt.fpConst(fs, hi)))
		} else {
			inRange = tt.And(tt.FPCmp("fp.lt", tt.fpConst(fs, lo), x), tt.FPCmp("fp.lt", x, tt.fpConst(fs, hi)))
		}
		if !m.Branch(inRange) {
			m.implDefined("float→int conversion of an out-of-range or NaN value")
			// amd64 behaviour: 0x8000... ("integer indefinite") for signed 64/32;
			// we do not model other targets: abort this path as flagged.
			panic(pathAbort{abInfeasible, "implementation-defined float→int conversion (flagged)"})
		}
		return fromTerm(tt.FPToInt(x, d.signed, d.w), tDst)
	}
	panic(fmt.Sprintf("symbolic conversion %v -> %v", tSrc, tDst))
}

func (m *Machine) implDefined(what string) {
	if m.stubsHit != nil {
		m.stubsHit["impl-defined:"+what]++
	}
}

// ---- indexing

// index implements x[i] for arrays (values) and strings.
func (m *Machine) index(x, idx value, tIdx types.Type) value {
	var n int
	switch x := x.(type) {
	case array:
		n = len(x)
	case string:
		n = len(x)
	case symstr:
		n = len(x)
	default:
		panic(fmt.Sprintf("unexpected x type in Index: %T", x))
	}
	get := func(i int) value {
		switch x := x.(type) {
		case array:
			return x[i]
		case string:
			return x[i]
		case symstr:
			return x[i]
		}
		return nil
	}
	if it, ok := idx.(*Term); ok {
		m.boundsCheck(it, n, tIdx)
		// scalar elements: ite chain; otherwise enumerate
		elems := make([]value, n)
		scalar := true
		for i := 0; i < n; i++ {
			elems[i] = get(i)
			if !isScalar(elems[i]) {
				scalar = false
			}
		}
		if scalar && n > 0 {
			return m.iteChain(it, elems)
		}
		i := int(m.Concretize(it))
		return get(i)
	}
	i := asInt64(idx)
	if i < 0 || i >= int64(n) {
		panic(targetRuntimeError(fmt.Sprintf("index out of range [%d] with length %d", i, n)))
	}
	return get(int(i))
}

func isScalar(v value) bool {
	switch v.(type) {
	case bool, int, int8, int16, int32, int64, uint, uint8, uint16, uint32, uint64, uintptr, float32, float64, *Term:
		return true
	}
	return false
}

// boundsCheck forks a panic path if idx can be outside [0,n).
func (m *Machine) boundsCheck(idx *Term, n int, tIdx types.Type) {
	// widen to 64 bits by the index type's signedness; an unsigned 64-bit
	// comparison then also covers negative values
	var wide *Term
	if basicOf(tIdx).signed {
		wide = m.tt.SignExt(idx, 64)
	} else {
		wide = m.tt.ZeroExt(idx, 64)
	}
	in := m.tt.BVCmp("bvult", wide, m.tt.BV(uint64(n), 64))
	if !m.Branch(in) {
		panic(targetRuntimeError(fmt.Sprintf("index out of range [symbolic] with length %d", n)))
	}
}

// iteChain builds the value elems[idx] for scalar elements, grouping equal
// elements into index ranges.
func (m *Machine) iteChain(idx *Term, elems []value) value {
	tt := m.tt
	w := idx.S.W
	// runs of identical elements
	type run struct {
		lo, hi int
		v      *Term
	}
	var runs []run
	for i, e := range elems {
		te := m.toTerm(e)
		if len(runs) > 0 && runs[len(runs)-1].v == te {
			runs[len(runs)-1].hi = i
		} else {
			runs = append(runs, run{i, i, te})
		}
	}
	// group runs by value: value -> condition
	order := []*Term{}
	conds := map[*Term]*Term{}
	for _, r := range runs {
		var c *Term
		if r.lo == r.hi {
			c = tt.Eq(idx, tt.BV(uint64(r.lo), w))
		} else {
			c = tt.And(tt.BVCmp("bvule", tt.BV(uint64(r.lo), w), idx), tt.BVCmp("bvule", idx, tt.BV(uint64(r.hi), w)))
		}
		if old, ok := conds[r.v]; ok {
			conds[r.v] = tt.Or(old, c)
		} else {
			conds[r.v] = c
			order = append(order, r.v)
		}
	}
	// most frequent value last (default) would be nicer; keep simple: last in order is default
	res := order[len(order)-1]
	for i := len(order) - 2; i >= 0; i-- {
		res = tt.Ite(conds[order[i]], order[i], res)
	}
	return m.termToValueLike(res, elems[0])
}

// termToValueLike converts a term to a value with the dynamic type of like.
func (m *Machine) termToValueLike(t *Term, like value) value {
	if !t.IsConst() {
		return t
	}
	switch like.(type) {
	case bool:
		return t.V == 1
	case int:
		return int(t.V)
	case int8:
		return int8(t.V)
	case int16:
		return int16(t.V)
	case int32:
		return int32(t.V)
	case int64:
		return int64(t.V)
	case uint:
		return uint(t.V)
	case uint8:
		return uint8(t.V)
	case uint16:
		return uint16(t.V)
	case uint32:
		return uint32(t.V)
	case uint64:
		return t.V
	case uintptr:
		return uintptr(t.V)
	case float64:
		return math.Float64frombits(t.V)
	case float32:
		return math.Float32frombits(uint32(t.V))
	}
	return t
}

// symElemPtr is the address arr[idx] for a symbolic idx, used only by loads.
type symElemPtr struct {
	arr []value
	idx *Term
}

// symIndexAddr implements &arr[idx] for a symbolic index.
func (m *Machine) symIndexAddr(instr *ssa.IndexAddr, arr []value, idx *Term, tIdx types.Type) value {
	m.boundsCheck(idx, len(arr), tIdx)
	// If every use is a load of scalars, keep the address symbolic.
	onlyLoads := true
	if refs := instr.Referrers(); refs != nil {
		for _, r := range *refs {
			if u, ok := r.(*ssa.UnOp); ok && u.Op == token.MUL {
				continue
			}
			if _, ok := r.(*ssa.DebugRef); ok {
				continue
			}
			onlyLoads = false
			break
		}
	} else {
		onlyLoads = false
	}
	if onlyLoads && len(arr) > 0 {
		scalar := true
		for _, e := range arr {
			if !isScalar(e) {
				scalar = false
				break
			}
		}
		if scalar {
			return &symElemPtr{arr, idx}
		}
	}
	i := int(m.Concretize(idx))
	return &arr[i]
}

// ---- slicing

func (m *Machine) sliceIndex(v value, what string, max int) int64 {
	if t, ok := v.(*Term); ok {
		in := m.tt.BVCmp("bvule", m.tt.ZeroExt(t, 64), m.tt.BV(uint64(max), 64))
		if !m.Branch(in) {
			panic(targetRuntimeError("slice bounds out of range [symbolic " + what + "]"))
		}
		return int64(m.Concretize(t))
	}
	return asInt64(v)
}

// slice returns x[lo:hi:max].  Any of lo, hi and max may be nil.
func (m *Machine) slice(x, lo, hi, max value) value {
	var Len, Cap int
	switch x := x.(type) {
	case string:
		Len = len(x)
		Cap = Len
	case symstr:
		Len = len(x)
		Cap = Len
	case []value:
		Len = len(x)
		Cap = cap(x)
	case *value: // *array
		if x == nil {
			panic(targetRuntimeError("invalid memory address or nil pointer dereference"))
		}
		a := (*x).(array)
		Len = len(a)
		Cap = cap(a)
	}
	l := int64(0)
	if lo != nil {
		l = m.sliceIndex(lo, "low", Cap)
	}
	h := int64(Len)
	if hi != nil {
		h = m.sliceIndex(hi, "high", Cap)
	}
	mx := int64(Cap)
	if max != nil {
		mx = m.sliceIndex(max, "max", Cap)
	}
	if l < 0 || h < l || mx < h || mx > int64(Cap) {
		panic(targetRuntimeError(fmt.Sprintf("slice bounds out of range [%d:%d:%d] with capacity %d", l, h, mx, Cap)))
	}
	switch x := x.(type) {
	case string:
		return x[l:h]
	case symstr:
		return normStr(x[l:h])
	case []value:
		return x[l:h:mx]
	case *value: // *array
		a := (*x).(array)
		return []value(a)[l:h:mx]
	}
	panic(fmt.Sprintf("slice: unexpected X type: %T", x))
}

// copyVal deep-copies aggregates so that two addressable locations never
// share a structure or array.
func copyVal(v value) value {
	switch v := v.(type) {
	case structure:
		n := make(structure, len(v))
		for i, e := range v {
			n[i] = copyVal(e)
		}
		return n
	case array:
		n := make(array, len(v))
		for i, e := range v {
			n[i] = copyVal(e)
		}
		return n
	}
	return v
}

// Go's malloc size classes (runtime/sizeclasses.go), used to reproduce the
// capacity append() really allocates: programs can observe it through
// reslicing into spare capacity.
var sizeClasses = []int{0, 8, 16, 24, 32, 48, 64, 80, 96, 112, 128, 144, 160, 176, 192, 208, 224, 240, 256, 288, 320, 352, 384, 416, 448, 480, 512, 576, 640, 704, 768, 896, 1024, 1152, 1280, 1408, 1536, 1792, 2048, 2304, 2688, 3072, 3200, 3456, 4096, 4864, 5376, 6144, 6528, 6784, 6912, 8192, 9472, 9728, 10240, 10880, 12288, 13568, 14336, 16384, 18432, 19072, 20480, 21760, 24576, 27264, 28672, 32768}

func roundupsize(n int) int {
	if n <= 32768 {
		for _, c := range sizeClasses {
			if c >= n {
				return c
			}
		}
	}
	// large objects: rounded up to the page size
	return (n + 8191) &^ 8191
}

// growCap reproduces runtime.growslice (Go 1.20+): the capacity of the slice
// append allocates for newLen elements of elemSize bytes.
func growCap(oldCap, newLen, elemSize int) int {
	newcap := oldCap
	doublecap := newcap + newcap
	if newLen > doublecap {
		newcap = newLen
	} else {
		const threshold = 256
		if oldCap < threshold {
			newcap = doublecap
		} else {
			for newcap < newLen {
				newcap += (newcap + 3*threshold) >> 2
			}
		}
	}
	if elemSize <= 0 {
		return newcap
	}
	return roundupsize(newcap*elemSize) / elemSize
}

func (m *Machine) minV(x, y value) value { return m.minmax(x, y, true) }
func (m *Machine) maxV(x, y value) value { return m.minmax(x, y, false) }

func (m *Machine) minmax(x, y value, isMin bool) value {
	if !isSym(x) && !isSym(y) {
		if isMin {
			return min(x, y)
		}
		return max(x, y)
	}
	// symbolic integers: an ite, no fork (the static type is not passed to
	// builtins; Go's int kinds are told apart by the concrete operand if any,
	// and symbolic operands here come from signed types)
	a, b := m.toTerm(x), m.toTerm(y)
	if a.S.K != SBV || a.S != b.S {
		unsupported("min/max builtin on symbolic non-integer operands")
	}
	signed := true
	for _, v := range []value{x, y} {
		switch v.(type) {
		case uint, uint8, uint16, uint32, uint64, uintptr:
			signed = false
		}
	}
	if m.minmaxUnsigned {
		signed = false
	}
	lt := "bvslt"
	if !signed {
		lt = "bvult"
	}
	c := m.tt.BVCmp(lt, a, b)
	var r *Term
	if isMin {
		r = m.tt.Ite(c, a, b)
	} else {
		r = m.tt.Ite(c, b, a)
	}
	if r.IsConst() {
		if _, ok := x.(*Term); ok {
			return m.termToValueLike(r, y)
		}
		return m.termToValueLike(r, x)
	}
	return r
}

// conv converts x of type tSrc to tDst (possibly symbolic).
func (m *Machine) conv(tDst, tSrc types.Type, x value) value {
	switch x := x.(type) {
	case *Term:
		return m.symConv(tDst, tSrc, x)
	case symstr:
		switch ud := tDst.Underlying().(type) {
		case *types.Basic:
			if ud.Kind() == types.String {
				return x
			}
		case *types.Slice:
			switch ud.Elem().Underlying().(*types.Basic).Kind() {
			case types.Byte:
				return strBytes(x)
			case types.Rune:
				var res []value
				b := []value(x)
				for i := 0; i < len(b); {
					r, n := m.decodeRune(b[i:])
					res = append(res, r)
					i += n
				}
				return res
			}
		}
		panic(fmt.Sprintf("conversion of symbolic string to %v", tDst))
	case []value:
		if bd, ok := tDst.Underlying().(*types.Basic); ok && bd.Kind() == types.String {
			switch tSrc.Underlying().(*types.Slice).Elem().Underlying().(*types.Basic).Kind() {
			case types.Byte:
				return normStr(x)
			case types.Rune:
				return m.stringFromRunes(x)
			}
		}
	case float64, float32:
		// concrete float -> int: guard implementation-defined cases
		d := basicOf(tDst)
		if d.ok && !d.float && !d.str && !d.boolean {
			var f float64
			switch x := x.(type) {
			case float64:
				f = x
			case float32:
				f = float64(x)
			}
			var okRange bool
			if d.signed {
				okRange = f >= -math.Ldexp(1, d.w-1) && f < math.Ldexp(1, d.w-1)
			} else {
				okRange = f > -1 && f < math.Ldexp(1, d.w)
			}
			if !okRange {
				m.implDefined("float→int conversion of an out-of-range or NaN value")
			}
		}
	}
	return concreteConv(tDst, tSrc, x)
}
