package exec

// Path state, decisions and the solver-facing part of one worker.

import (
	"fmt"
	"go/types"
	"os"
	"runtime/debug"
	"sort"
	"strings"

	"golang.org/x/tools/go/ssa"
)

// ---- path aborts (never visible to interpreted recover())

type abortKind int

const (
	abInfeasible   abortKind = iota // assumption failed / path condition unsat
	abViolationEnd                  // assertion failed on every continuation: path ends
	abUnsupported                   // operation outside the engine
	abUnwind                        // instruction / loop budget exhausted
	abEngine                        // internal error of the engine
	abDone                          // harness asked to stop the path (main returned)
	abThreadExit                    // parked goroutine unwound at path end
)

type pathAbort struct {
	kind abortKind
	msg  string
}

func (p pathAbort) String() string {
	return fmt.Sprintf("pathAbort(%d): %s", p.kind, p.msg)
}

// targetRuntimeError is a run-time panic of the interpreted program
// (index out of range, nil dereference, ...).
type targetRuntimeError string

func (e targetRuntimeError) Error() string { return string(e) }

func unsupported(format string, args ...interface{}) {
	panic(pathAbort{abUnsupported, fmt.Sprintf(format, args...)})
}

// ---- decision trace

type dkind uint8

const (
	dBranch dkind = iota // v = 0/1
	dChoice              // v = chosen alternative
	dValue               // v = value supplied by a solver model
)

type decision struct {
	k dkind
	v int64
}

// InputRec describes one symbolic input created on a path (for replay scripts).
type InputRec struct {
	Kind string `json:"kind"` // bool u8 u16 u32 u64 i64 int f64 choice len
	Name string `json:"name,omitempty"`
	Val  uint64 `json:"val"`
	term *Term
}

type Violation struct {
	Harness string     `json:"harness"`
	Label   string     `json:"label"`
	Kind    string     `json:"kind"` // assert | panic | deadlock | race
	Msg     string     `json:"msg,omitempty"`
	Script  []InputRec `json:"script"`
	Sched   []int64    `json:"sched,omitempty"`
	Trace   []int64    `json:"trace,omitempty"`
}

type PathResult struct {
	Status     string // ok infeasible violation-end unsupported unwind engine
	Msg        string
	Forks      [][]decision
	Violations []Violation
	Reached    map[string]bool
	Witness    map[string][]InputRec // one model per reach label (first time)
	Decisions  int
	Steps      int
}

type pathState struct {
	prefix  []decision
	pos     int
	trace   []decision
	forks   [][]decision
	pc      []*Term
	pcSet   map[*Term]bool
	inputs  []InputRec
	steps   int
	nvars   int
	viol    []Violation
	reached map[string]bool
	witness map[string][]InputRec
	undo    []func()
	ndec    int
	// ghost counters for harnesses
	loopCount map[interface{}]int
	dom       map[*Term]*varDomain
}

// Limits of one exploration.
type Limits struct {
	MaxSteps    int // instructions per path
	MaxLoop     int // visits of one block per frame activation
	Preemptions int
	TimerFires  int
	// timers whose (concrete) duration exceeds the horizon never fire: the
	// explored runs last less virtual time than that (0 = any timer may fire)
	TimerHorizonNS int64
	WantWitness    map[string]bool // reach labels for which a model is wanted
	CollectTrace   bool
	Params         map[string]int
}

func (m *Machine) live() bool { return m.ps.pos >= len(m.ps.prefix) }

func (m *Machine) nextReplay(k dkind) int64 {
	d := m.ps.prefix[m.ps.pos]
	if d.k != k {
		panic(pathAbort{abEngine, fmt.Sprintf("replay divergence at %d: want kind %d got %d", m.ps.pos, k, d.k)})
	}
	m.ps.pos++
	m.ps.trace = append(m.ps.trace, d)
	return d.v
}

func (m *Machine) record(k dkind, v int64) {
	m.ps.trace = append(m.ps.trace, decision{k, v})
	m.ps.pos++
}

func (m *Machine) forkSibling(k dkind, v int64) {
	n := len(m.ps.trace)
	sib := make([]decision, n+1)
	copy(sib, m.ps.trace)
	sib[n] = decision{k, v}
	m.ps.forks = append(m.ps.forks, sib)
}

func (m *Machine) addPC(c *Term) {
	if c.IsTrue() || m.ps.pcSet[c] {
		return
	}
	// split conjunctions so that syntactic look-ups hit more often
	if c.Op == "and" {
		m.addPC(c.Args[0])
		m.addPC(c.Args[1])
		return
	}
	m.ps.pcSet[c] = true
	m.ps.pc = append(m.ps.pc, c)
	m.noteConjunct(c)
	m.solver.Assert(c)
}

// syntactic reports whether c is decided by the path condition syntactically.
func (m *Machine) syntactic(c *Term) (val, known bool) {
	if c.IsConst() {
		return c.V == 1, true
	}
	if m.ps.pcSet[c] {
		return true, true
	}
	if m.ps.pcSet[m.tt.Not(c)] {
		return false, true
	}
	return false, false
}

func (m *Machine) checkWith(c *Term) SatResult {
	m.solver.emit(c) // definitions live in the run scope, not the query scope
	m.solver.Push()
	m.solver.Assert(c)
	r := m.solver.Check()
	m.solver.Pop()
	return r
}

// Branch decides a symbolic condition, forking when both sides are feasible.
func (m *Machine) Branch(c *Term) bool {
	if c.IsConst() {
		return c.V == 1
	}
	m.ps.ndec++
	if v, ok := m.syntactic(c); ok {
		// implied: not recorded (re-execution decides it the same way)
		return v
	}
	dd := m.domainDecide(c)
	switch dd {
	case 1:
		return true
	case 0:
		return false
	}
	if !m.live() {
		v := m.nextReplay(dBranch) == 1
		if v {
			m.addPC(c)
		} else {
			m.addPC(m.tt.Not(c))
		}
		return v
	}
	nc := m.tt.Not(c)
	var rt, rf SatResult
	if dd == 2 {
		rt, rf = Sat, Sat
	} else {
		rt = m.checkWith(c)
		if rt == Unsat {
			rf = Sat // PC is satisfiable, so the other side is
		} else {
			rf = m.checkWith(nc)
		}
	}
	if rt == Unknown || rf == Unknown {
		m.inconclusive++
	}
	switch {
	case rt != Unsat && rf != Unsat:
		if m.forkSites != nil && m.lastIf != nil {
			m.forkSites[m.prog.Fset.Position(m.lastIf.Cond.Pos()).String()+" in "+m.lastIf.Parent().Name()]++
		}
		m.forkSibling(dBranch, 0)
		m.record(dBranch, 1)
		m.addPC(c)
		return true
	case rt != Unsat:
		m.record(dBranch, 1)
		m.addPC(c)
		return true
	case rf != Unsat:
		m.record(dBranch, 0)
		m.addPC(nc)
		return false
	}
	panic(pathAbort{abInfeasible, "both sides infeasible"})
}

// Choose takes a non-data decision among n alternatives, all explored.
func (m *Machine) Choose(n int) int {
	if n <= 0 {
		panic(pathAbort{abEngine, "Choose(0)"})
	}
	if n == 1 {
		return 0
	}
	m.ps.ndec++
	if !m.live() {
		return int(m.nextReplay(dChoice))
	}
	for i := n - 1; i >= 1; i-- {
		m.forkSibling(dChoice, int64(i))
	}
	m.record(dChoice, 0)
	return 0
}

// Assume restricts the path; an infeasible assumption ends it silently.
func (m *Machine) Assume(c *Term) {
	if c.IsConst() {
		if c.V == 0 {
			panic(pathAbort{abInfeasible, "assume false"})
		}
		return
	}
	if v, ok := m.syntactic(c); ok {
		if !v {
			panic(pathAbort{abInfeasible, "assume contradicts path condition"})
		}
		return
	}
	switch m.domainDecide(c) {
	case 1:
		return
	case 0:
		panic(pathAbort{abInfeasible, "assume contradicts path condition"})
	case 2:
		m.addPC(c)
		return
	}
	if !m.live() {
		m.addPC(c)
		return
	}
	r := m.checkWith(c)
	if r == Unsat {
		panic(pathAbort{abInfeasible, "assume infeasible"})
	}
	if r == Unknown {
		m.inconclusive++
	}
	m.addPC(c)
}

// model returns the values of all inputs created so far under PC ∧ extra.
// The solver must be able to satisfy it (caller just checked).
func (m *Machine) modelScript(extra *Term) ([]InputRec, bool) {
	if extra != nil {
		m.solver.emit(extra)
	}
	for _, in := range m.ps.inputs {
		if in.term != nil {
			m.solver.emit(in.term)
		}
	}
	m.solver.Push()
	defer m.solver.Pop()
	if extra != nil {
		m.solver.Assert(extra)
	}
	if m.solver.Check() != Sat {
		return nil, false
	}
	var vars []*Term
	for _, in := range m.ps.inputs {
		if in.term != nil {
			vars = append(vars, in.term)
		}
	}
	vals, err := m.solver.GetValues(vars)
	if err != nil {
		m.logf("model error: %v", err)
		return nil, false
	}
	out := make([]InputRec, len(m.ps.inputs))
	copy(out, m.ps.inputs)
	for i := range out {
		if out[i].term != nil {
			out[i].Val = vals[out[i].term.Name]
		}
	}
	return out, true
}

func (m *Machine) traceInts() []int64 {
	r := make([]int64, 0, 2*len(m.ps.trace))
	for _, d := range m.ps.trace {
		r = append(r, int64(d.k), d.v)
	}
	return r
}

// Assert checks a property; c may be concrete or symbolic.
func (m *Machine) Assert(c *Term, label string) {
	if c.IsTrue() {
		return
	}
	if v, ok := m.syntactic(c); ok && v {
		return
	}
	if !m.live() && !m.reportInReplay {
		// already examined by the run that produced this prefix
		if c.IsFalse() {
			panic(pathAbort{abViolationEnd, label})
		}
		m.addPC(c)
		return
	}
	m.verdictQueries++
	if c.IsFalse() {
		script, ok := m.modelScript(nil)
		if !ok {
			m.inconclusive++
		}
		m.ps.viol = append(m.ps.viol, Violation{Harness: m.harness, Label: label, Kind: "assert", Script: script, Trace: m.traceInts()})
		panic(pathAbort{abViolationEnd, label})
	}
	nc := m.tt.Not(c)
	r := m.checkWith(nc)
	switch r {
	case Unsat:
		m.addPC(c) // holds on this path for all inputs (kept: replay adds it too)
		return
	case Unknown:
		m.inconclusive++
		m.inconclusiveVerdicts++
		m.addPC(c)
		return
	}
	script, ok := m.modelScript(nc)
	if !ok {
		m.inconclusive++
	}
	m.ps.viol = append(m.ps.viol, Violation{Harness: m.harness, Label: label, Kind: "assert", Script: script, Trace: m.traceInts()})
	// continue on the part of the path where the assertion holds
	if m.checkWith(c) == Unsat {
		panic(pathAbort{abViolationEnd, label})
	}
	m.addPC(c)
}

// Reach records that a marker was reached on a feasible path.
func (m *Machine) Reach(label string) {
	if m.ps.reached[label] {
		return
	}
	m.ps.reached[label] = true
	if m.live() && m.limits.WantWitness[label] && m.witnessDone != nil {
		if _, done := m.witnessDone.LoadOrStore(m.harness+"/"+label, true); !done {
			if script, ok := m.modelScript(nil); ok {
				m.ps.witness[label] = script
			}
		}
	}
}

// ---- inputs

func (m *Machine) freshVar(kind string, s Sort) *Term {
	name := fmt.Sprintf("in%d_%s", len(m.ps.inputs), kind)
	t := m.tt.Var(name, s)
	m.ps.inputs = append(m.ps.inputs, InputRec{Kind: kind, Name: name, term: t})
	return t
}

func (m *Machine) recordChoiceInput(kind string, v int) {
	m.ps.inputs = append(m.ps.inputs, InputRec{Kind: kind, Val: uint64(v)})
}

// Concretize enumerates the feasible values of t (one path per value).
func (m *Machine) Concretize(t *Term) uint64 {
	if t.IsConst() {
		return t.V
	}
	for iter := 0; ; iter++ {
		if iter > m.allocBound() {
			panic(pathAbort{abUnwind, fmt.Sprintf("concretisation of %v exceeds %d values", t, m.allocBound())})
		}
		var v uint64
		if !m.live() {
			v = uint64(m.nextReplay(dValue))
		} else {
			m.solver.emit(t)
			m.solver.Push()
			r := m.solver.Check()
			if r != Sat {
				m.solver.Pop()
				if r == Unknown {
					m.inconclusive++
				}
				panic(pathAbort{abInfeasible, "concretize: no model"})
			}
			vals, err := m.getTermValue(t)
			m.solver.Pop()
			if err != nil {
				panic(pathAbort{abEngine, "concretize: " + err.Error()})
			}
			v = vals
			m.record(dValue, int64(v))
		}
		var k *Term
		if t.S.K == SBool {
			k = m.tt.Bool(v == 1)
		} else {
			k = m.tt.BV(v, t.S.W)
		}
		if m.Branch(m.tt.Eq(t, k)) {
			return v
		}
	}
}

func (m *Machine) getTermValue(t *Term) (uint64, error) {
	// define an alias variable so that get-value returns a plain name
	m.solver.emit(t)
	m.solver.send("(get-value (" + t.ref() + "))")
	lines, err := m.solver.roundTrip()
	if err != nil {
		return 0, err
	}
	txt := strings.Join(lines, " ")
	toks := tokenize(txt)
	// ( ( <expr> <value> ) )
	if len(toks) < 5 {
		return 0, fmt.Errorf("get-value: %s", txt)
	}
	// value begins after the expr: expr is a single token (tN or name)
	v, _, err := parseValue(toks, 3)
	if err != nil {
		return 0, fmt.Errorf("get-value: %v: %s", err, txt)
	}
	return v, nil
}

func (m *Machine) allocBound() int {
	if m.AllocBound > 0 {
		return m.AllocBound
	}
	return 64
}

func (m *Machine) logf(format string, args ...interface{}) {
	if m.Log != nil {
		fmt.Fprintf(m.Log, format+"\n", args...)
	}
}

// ---- undo log (restores init-time memory after each path)

func (m *Machine) logUndo(f func()) {
	if m.ps != nil {
		m.ps.undo = append(m.ps.undo, f)
	}
}

// setCell writes *addr = v with undo logging.
func (m *Machine) setCell(addr *value, v value) {
	if m.ps != nil {
		old := *addr
		m.ps.undo = append(m.ps.undo, func() { *addr = old })
	}
	*addr = v
}

// ---- running one path

// RunPath executes entry once, following prefix and then exploring live.
func (m *Machine) RunPath(entry string, prefix []decision) (res PathResult) {
	m.ps = &pathState{
		prefix:    prefix,
		pcSet:     make(map[*Term]bool),
		reached:   make(map[string]bool),
		witness:   make(map[string][]InputRec),
		loopCount: make(map[interface{}]int),
		dom:       make(map[*Term]*varDomain),
	}
	m.harness = entry
	m.clock = nil
	m.clockSymbolic = false
	m.asyncTimerChan = false
	m.solver.Push()
	defer func() {
		ps := m.ps
		if r := recover(); r != nil {
			switch r := r.(type) {
			case pathAbort:
				switch r.kind {
				case abInfeasible:
					res.Status = "infeasible"
				case abViolationEnd:
					res.Status = "violation-end"
				case abUnsupported:
					res.Status = "unsupported"
				case abUnwind:
					res.Status = "unwind"
				case abDone:
					res.Status = "ok"
				default:
					res.Status = "engine"
				}
				res.Msg = r.msg
				if debugWhere && r.kind == abUnsupported {
					res.Msg += " @ " + m.whereAmI()
				}
			default:
				res.Status = "engine"
				res.Msg = fmt.Sprintf("%v\n%s", r, debug.Stack())
			}
		}
		m.endPathThreads()
		// undo heap effects on init-time state
		for i := len(ps.undo) - 1; i >= 0; i-- {
			ps.undo[i]()
		}
		m.solver.Pop()
		res.Forks = ps.forks
		res.Violations = ps.viol
		res.Reached = ps.reached
		res.Witness = ps.witness
		res.Decisions = ps.ndec
		res.Steps = ps.steps
		m.ps = nil
	}()
	fn := m.lookupEntry(entry)
	if fn == nil {
		panic(pathAbort{abEngine, "no such entry function: " + entry})
	}
	m.runMain(fn)
	res.Status = "ok"
	return
}

func (m *Machine) reportTargetPanic(p interface{}) {
	// a panic escaped the harness entry: violation of the implicit assertion
	msg := ""
	switch p := p.(type) {
	case targetPanic:
		msg = m.panicString(p.v)
	case targetRuntimeError:
		msg = "runtime error: " + string(p)
	default:
		msg = fmt.Sprint(p)
	}
	label := "panic"
	var script []InputRec
	if m.live() || m.reportInReplay {
		m.verdictQueries++
		s, ok := m.modelScript(nil)
		if !ok {
			m.inconclusive++
		}
		script = s
		m.ps.viol = append(m.ps.viol, Violation{Harness: m.harness, Label: label, Kind: "panic", Msg: msg, Script: script, Trace: m.traceInts()})
	}
	panic(pathAbort{abViolationEnd, "panic: " + msg})
}

func (m *Machine) panicString(v value) string {
	if it, ok := v.(iface); ok {
		if s, ok := it.v.(string); ok {
			return s
		}
		if it.t != nil {
			// error values: try Error() through interpretation is risky here; print type
			return fmt.Sprintf("(%s) %s", it.t, toString(it.v))
		}
	}
	return toString(v)
}

// ---- type helpers

func mustDeref(t types.Type) types.Type {
	if p, ok := t.Underlying().(*types.Pointer); ok {
		return p.Elem()
	}
	panic(fmt.Sprintf("mustDeref: %v is not a pointer", t))
}

func sortedKeys(m map[string]bool) []string {
	var ks []string
	for k := range m {
		ks = append(ks, k)
	}
	sort.Strings(ks)
	return ks
}

// store stores value v of type T into *addr, logging the old contents so that
// the path's effects on pre-existing memory can be undone.
func (m *Machine) store(T types.Type, addr *value, v value) {
	switch T := T.Underlying().(type) {
	case *types.Struct:
		lhs := (*addr).(structure)
		rhs := v.(structure)
		for i := range lhs {
			m.store(T.Field(i).Type(), &lhs[i], rhs[i])
		}
	case *types.Array:
		lhs := (*addr).(array)
		rhs := v.(array)
		for i := range lhs {
			m.store(T.Elem(), &lhs[i], rhs[i])
		}
	default:
		m.setCell(addr, v)
	}
}

func (m *Machine) lookupEntry(name string) value {
	if f := m.mainPkg.Func(name); f != nil {
		return f
	}
	return nil
}

func (m *Machine) skipInit(pkg *ssa.Package) bool {
	return m.denyInit[pkg.Pkg.Path()]
}

// Reexecute re-runs one path along the recorded decisions of a violation and
// reports whether a violation with the same label and kind occurs again.
func (p *Program) Reexecute(o ExploreOpts, v Violation) (bool, error) {
	m, err := p.NewMachine()
	if err != nil {
		return false, err
	}
	defer m.Close()
	m.limits = o.Limits
	m.AllocBound = o.Alloc
	m.reportInReplay = true
	if os.Getenv("GOSYM_VERBOSE") != "" {
		m.Log = os.Stdout
	}
	var prefix []decision
	for i := 0; i+1 < len(v.Trace); i += 2 {
		prefix = append(prefix, decision{dkind(v.Trace[i]), v.Trace[i+1]})
	}
	res := m.RunPath(v.Harness, prefix)
	for _, w := range res.Violations {
		if w.Label == v.Label && w.Kind == v.Kind {
			return true, nil
		}
	}
	if res.Status == "engine" {
		return false, fmt.Errorf("engine error during re-execution: %s", res.Msg)
	}
	return false, nil
}
