package exec

// Loading the repository package (with overlaid harness files), building
// SSA, and the parallel path exploration.

import (
	"fmt"
	"go/token"
	"go/types"
	"io"
	"os"
	"sort"
	"strings"
	"sync"
	"time"

	"golang.org/x/tools/go/packages"
	"golang.org/x/tools/go/ssa"
	"golang.org/x/tools/go/ssa/ssautil"
)

type Config struct {
	Dir            string            // module directory under /repo
	Pkg            string            // package pattern relative to Dir (".", "./internal/x")
	Overlay        map[string][]byte // absolute path -> contents
	Redirects      map[string]string // full function name -> harness function name (in the main package)
	Noops          []string
	Merges         []string
	DenyInit       []string
	Solver         string
	TimeoutMS      int
	Workers        int
	Env            map[string]string
	Log            io.Writer
	BuildTags      []string
	LenientSprintf bool
}

type Program struct {
	cfg      Config
	Prog     *ssa.Program
	Main     *ssa.Package
	LoadTime time.Duration
	NumPkgs  int
	initOnce sync.Once
	shared   *Machine // holds the shared reflect fakes
}

var defaultNoops = []string{
	"go.opentelemetry.io/otel/internal/global.Debug",
	"go.opentelemetry.io/otel/internal/global.Info",
	"go.opentelemetry.io/otel/internal/global.Warn",
	"go.opentelemetry.io/otel/internal/global.Error",
	"go.opentelemetry.io/otel.Handle",
	"go.opentelemetry.io/otel/internal/global.GetLogger",
}

func Load(cfg Config) (*Program, error) {
	t0 := time.Now()
	env := append(os.Environ(), "GOFLAGS=-mod=mod", "GOPROXY=off", "GOSUMDB=off", "GOTOOLCHAIN=local")
	pcfg := &packages.Config{
		Mode:    packages.LoadAllSyntax,
		Dir:     cfg.Dir,
		Env:     env,
		Overlay: cfg.Overlay,
		Tests:   false,
	}
	if len(cfg.BuildTags) > 0 {
		pcfg.BuildFlags = []string{"-tags=" + strings.Join(cfg.BuildTags, ",")}
	}
	pat := cfg.Pkg
	if pat == "" {
		pat = "."
	}
	pkgs, err := packages.Load(pcfg, pat)
	if err != nil {
		return nil, err
	}
	if len(pkgs) != 1 {
		return nil, fmt.Errorf("expected one package for %s in %s, got %d", pat, cfg.Dir, len(pkgs))
	}
	var errs []string
	packages.Visit(pkgs, nil, func(p *packages.Package) {
		for _, e := range p.Errors {
			errs = append(errs, e.Error())
		}
	})
	if len(errs) > 0 {
		if len(errs) > 20 {
			errs = errs[:20]
		}
		return nil, fmt.Errorf("load errors:\n%s", strings.Join(errs, "\n"))
	}
	prog, spkgs := ssautil.AllPackages(pkgs, ssa.InstantiateGenerics)
	prog.Build()
	p := &Program{cfg: cfg, Prog: prog, Main: spkgs[0]}
	p.NumPkgs = len(prog.AllPackages())
	p.LoadTime = time.Since(t0)
	if p.Main == nil {
		return nil, fmt.Errorf("no SSA package for %s", pkgs[0].PkgPath)
	}
	return p, nil
}

// NewMachine creates a worker: fresh globals, terms, solver; runs package
// initialisation once.
func (p *Program) NewMachine() (*Machine, error) {
	m := &Machine{
		prog:           p.Prog,
		mainPkg:        p.Main,
		globals:        make(map[*ssa.Global]*value),
		poison:         make(map[*ssa.Global]string),
		sizes:          &types.StdSizes{WordSize: 8, MaxAlign: 8},
		tt:             NewTermTable(),
		NoDomain:       os.Getenv("GOSYM_NODOMAIN") != "", // self-consistency runs: every feasibility question goes to the solver
		redirects:      map[string]*ssa.Function{},
		noops:          map[string]bool{},
		merges:         map[string]bool{},
		env:            map[string]value{},
		initFailed:     map[*ssa.Package]string{},
		funcsHit:       map[*ssa.Function]int{},
		fnSize:         map[*ssa.Function]int{},
		stubsHit:       map[string]int{},
		denyInit:       map[string]bool{},
		Log:            p.cfg.Log,
		LenientSprintf: p.cfg.LenientSprintf,
	}
	for _, n := range defaultNoops {
		m.noops[n] = true
	}
	for _, n := range p.cfg.Noops {
		m.noops[n] = true
	}
	for _, n := range p.cfg.Merges {
		m.merges[n] = true
	}
	for _, n := range p.cfg.DenyInit {
		m.denyInit[n] = true
	}
	for k, v := range p.cfg.Env {
		m.env[k] = v
	}
	for from, to := range p.cfg.Redirects {
		f := p.Main.Func(to)
		if f == nil {
			return nil, fmt.Errorf("redirect target %s not found in %s", to, p.Main.Pkg.Path())
		}
		m.redirects[from] = f
	}
	runtimePkg := p.Prog.ImportedPackage("runtime")
	if runtimePkg == nil {
		return nil, fmt.Errorf("ssa.Program doesn't include runtime package")
	}
	m.runtimeErrorString = runtimePkg.Type("errorString").Object().Type()

	p.initOnce.Do(func() {
		p.shared = &Machine{prog: p.Prog}
		initReflect(p.shared)
	})
	m.reflectPackage = p.shared.reflectPackage
	m.rtypeMethods = p.shared.rtypeMethods
	m.errorMethods = p.shared.errorMethods

	for _, pkg := range p.Prog.AllPackages() {
		for _, mem := range pkg.Members {
			if g, ok := mem.(*ssa.Global); ok {
				cell := zero(mustDeref(g.Type()))
				m.globals[g] = &cell
			}
		}
	}
	kind := p.cfg.Solver
	if kind == "" {
		kind = "z3"
	}
	to := p.cfg.TimeoutMS
	if to == 0 {
		to = 60000
	}
	var slog io.Writer
	if lp := os.Getenv("GOSYM_SMTLOG"); lp != "" {
		if f, ferr := os.OpenFile(fmt.Sprintf("%s.%d", lp, time.Now().UnixNano()%100000), os.O_CREATE|os.O_WRONLY|os.O_TRUNC, 0o644); ferr == nil {
			slog = f
		}
	}
	s, err := NewSolver(kind, to, slog)
	if err != nil {
		return nil, err
	}
	m.solver = s
	// package initialisation (outside any path: no undo logging, no solver)
	m.inInit = true
	func() {
		defer func() {
			if r := recover(); r != nil {
				err = fmt.Errorf("package init failed: %v", r)
			}
		}()
		call(m, nil, token.NoPos, p.Main.Func("init"), nil)
	}()
	m.inInit = false
	if err != nil {
		return nil, err
	}
	if why, bad := m.initFailed[p.Main]; bad {
		return nil, fmt.Errorf("init of the package under test did not complete: %s", why)
	}
	return m, nil
}

func (m *Machine) Close() { m.solver.Close() }

// InitFailures lists packages whose init did not complete.
func (m *Machine) InitFailures() map[string]string {
	r := map[string]string{}
	for p, why := range m.initFailed {
		r[p.Pkg.Path()] = why
	}
	return r
}

// ---- exploration

type ExploreOpts struct {
	Entry    string
	Limits   Limits
	MaxPaths int
	Deadline time.Time
	Seed     int64
	Alloc    int
	// per-query solver time-out of this exploration (0: the program's default)
	TimeoutMS int
	// once a violation whose label is not in ExpectedLabels has been found, the
	// exploration of this entry ends after StopGraceRuns further runs (0: never):
	// the verdict is already "violated", and a change that breaks the property can
	// also multiply the paths (e.g. by adding goroutines)
	StopGraceRuns  int
	ExpectedLabels map[string]bool
}

type FuncStat struct {
	Name   string `json:"name"`
	Calls  int    `json:"calls"`
	Instrs int    `json:"instrs"`
}

type Report struct {
	Entry         string
	Paths         int // completed (status ok)
	Infeasible    int
	ViolationEnds int
	Unsupported   map[string]int
	Unwind        map[string]int
	EngineErrors  map[string]int
	Decisions     int
	Steps         int
	Violations    map[string][]Violation // by label
	ViolCount     map[string]int
	Reached       map[string]bool
	Witness       map[string][]InputRec
	Queries       SolverStats
	VerdictQ      int
	Inconclusive  int
	InconclVerd   int
	Incomplete    bool // path budget or deadline hit
	StoppedEarly  bool // ended StopGraceRuns after the first violation
	Wall          time.Duration
	Funcs         []FuncStat
	Stubs         map[string]int
	InitFailed    map[string]string
	Samples       [][]InputRec
	TotalRuns     int
	ForkSites     map[string]int
}

type workItem []decision

// Explore runs the bounded symbolic exploration of one harness entry.
func (p *Program) Explore(o ExploreOpts) (*Report, error) {
	if o.TimeoutMS > 0 {
		p.cfg.TimeoutMS = o.TimeoutMS
	} else {
		p.cfg.TimeoutMS = 0
	}
	t0 := time.Now()
	nw := p.cfg.Workers
	if nw <= 0 {
		nw = 1
	}
	rep := &Report{Entry: o.Entry, Unsupported: map[string]int{}, Unwind: map[string]int{}, EngineErrors: map[string]int{},
		Violations: map[string][]Violation{}, ViolCount: map[string]int{}, Reached: map[string]bool{}, Witness: map[string][]InputRec{}, Stubs: map[string]int{}, InitFailed: map[string]string{}}
	if p.Main.Func(o.Entry) == nil {
		return nil, fmt.Errorf("entry %s not found in %s", o.Entry, p.Main.Pkg.Path())
	}

	var mu sync.Mutex
	var witnessDone sync.Map
	cond := sync.NewCond(&mu)
	queue := []workItem{nil}
	busy := 0
	stop := false
	firstViol := -1
	funcs := map[string]*FuncStat{}

	machines := make([]*Machine, nw)
	var merr error
	var wg sync.WaitGroup
	for w := 0; w < nw; w++ {
		wg.Add(1)
		go func(w int) {
			defer wg.Done()
			m, err := p.NewMachine()
			if err != nil {
				mu.Lock()
				merr = err
				stop = true
				cond.Broadcast()
				mu.Unlock()
				return
			}
			machines[w] = m
			m.witnessDone = &witnessDone
			if os.Getenv("GOSYM_FORKSITES") != "" {
				m.forkSites = map[string]int{}
			}
			m.limits = o.Limits
			m.AllocBound = o.Alloc
			defer m.Close()
			for {
				mu.Lock()
				for len(queue) == 0 && busy > 0 && !stop {
					cond.Wait()
				}
				if stop || (len(queue) == 0 && busy == 0) {
					cond.Broadcast()
					mu.Unlock()
					break
				}
				item := queue[len(queue)-1]
				queue = queue[:len(queue)-1]
				busy++
				mu.Unlock()

				res := m.RunPath(o.Entry, item)

				mu.Lock()
				busy--
				rep.TotalRuns++
				if os.Getenv("GOSYM_PROGRESS") != "" && rep.TotalRuns%2000 == 0 {
					fmt.Fprintf(os.Stderr, "progress %s: runs=%d queue=%d paths=%d t=%.0fs\n", o.Entry, rep.TotalRuns, len(queue), rep.Paths, time.Since(t0).Seconds())
				}
				rep.Decisions += res.Decisions
				rep.Steps += res.Steps
				switch res.Status {
				case "ok":
					rep.Paths++
				case "infeasible":
					rep.Infeasible++
				case "violation-end":
					rep.ViolationEnds++
				case "unsupported":
					rep.Unsupported[res.Msg]++
				case "unwind":
					rep.Unwind[res.Msg]++
				default:
					msg := res.Msg
					if len(msg) > 3000 {
						msg = msg[:3000]
					}
					rep.EngineErrors[msg]++
				}
				for _, v := range res.Violations {
					if firstViol < 0 && !o.ExpectedLabels[v.Label] {
						firstViol = rep.TotalRuns
					}
					rep.ViolCount[v.Label]++
					if len(rep.Violations[v.Label]) < 3 {
						rep.Violations[v.Label] = append(rep.Violations[v.Label], v)
					}
				}
				for l := range res.Reached {
					rep.Reached[l] = true
				}
				for l, w := range res.Witness {
					if _, ok := rep.Witness[l]; !ok {
						rep.Witness[l] = w
					}
				}
				for _, f := range res.Forks {
					queue = append(queue, f)
				}
				if o.MaxPaths > 0 && rep.TotalRuns >= o.MaxPaths && (len(queue) > 0 || busy > 0) {
					rep.Incomplete = true
					stop = true
				}
				if o.StopGraceRuns > 0 && firstViol >= 0 && rep.TotalRuns >= firstViol+o.StopGraceRuns && (len(queue) > 0 || busy > 0) {
					rep.StoppedEarly = true
					stop = true
				}
				if !o.Deadline.IsZero() && time.Now().After(o.Deadline) && (len(queue) > 0 || busy > 0) {
					rep.Incomplete = true
					stop = true
				}
				cond.Broadcast()
				mu.Unlock()
			}
			mu.Lock()
			rep.Queries.Sat += m.solver.Stats.Sat
			rep.Queries.Unsat += m.solver.Stats.Unsat
			rep.Queries.Unknown += m.solver.Stats.Unknown
			rep.Queries.Errors += m.solver.Stats.Errors
			rep.Queries.Time += m.solver.Stats.Time
			if m.solver.Stats.Slowest > rep.Queries.Slowest {
				rep.Queries.Slowest = m.solver.Stats.Slowest
			}
			rep.VerdictQ += m.verdictQueries
			rep.Inconclusive += m.inconclusive
			rep.InconclVerd += m.inconclusiveVerdicts
			for f, n := range m.funcsHit {
				name := f.String()
				fs := funcs[name]
				if fs == nil {
					ni := 0
					for _, b := range f.Blocks {
						ni += len(b.Instrs)
					}
					fs = &FuncStat{Name: name, Instrs: ni}
					funcs[name] = fs
				}
				fs.Calls += n
			}
			for k, n := range m.stubsHit {
				rep.Stubs[k] += n
			}
			if m.forkSites != nil {
				if rep.ForkSites == nil {
					rep.ForkSites = map[string]int{}
				}
				for k, n := range m.forkSites {
					rep.ForkSites[k] += n
				}
			}
			for k, v := range m.InitFailures() {
				rep.InitFailed[k] = v
			}
			mu.Unlock()
		}(w)
	}
	wg.Wait()
	if merr != nil {
		return nil, merr
	}
	for _, fs := range funcs {
		rep.Funcs = append(rep.Funcs, *fs)
	}
	sort.Slice(rep.Funcs, func(i, j int) bool { return rep.Funcs[i].Name < rep.Funcs[j].Name })
	rep.Wall = time.Since(t0)
	return rep, nil
}
