package exec

// Branch-feasibility pre-filter: a condition whose only free variable is one
// input of at most 8 bits is decided by evaluating it on every value of that
// input that the single-variable part of the path condition still allows.
// Sound and complete for those conditions (see DESIGN 2.4); everything else,
// and every assertion verdict, goes to the SMT solver.

type varDomain struct {
	allowed   [4]uint64 // bitset over 0..255
	count     int
	entangled bool // the variable occurs in a multi-variable conjunct of PC
}

// support computes the free variables of t (up to 2; more => many).
func (tt *TermTable) support(t *Term) ([]*Term, bool) {
	if t.supDone {
		return t.sup, t.supMany
	}
	var sup []*Term
	many := false
	switch t.Op {
	case "const":
	case "var":
		sup = []*Term{t}
	default:
		for _, a := range t.Args {
			s, m := tt.support(a)
			if m {
				many = true
				break
			}
			for _, v := range s {
				found := false
				for _, w := range sup {
					if w == v {
						found = true
					}
				}
				if !found {
					sup = append(sup, v)
				}
			}
			if len(sup) > 2 {
				many = true
				break
			}
		}
	}
	if many {
		sup = nil
	}
	t.sup, t.supMany, t.supDone = sup, many, true
	return sup, many
}

type evalSlot struct {
	epoch int
	v     uint64
	ok    bool
}

// evalOne evaluates t with the single variable x bound to val.
func (tt *TermTable) evalOne(t *Term, x *Term, val uint64) (uint64, bool) {
	tt.evalEpoch++
	if len(tt.evalMemo) < len(tt.terms) {
		tt.evalMemo = make([]evalSlot, len(tt.terms)+1024)
	}
	return tt.evalRec(t, x, val)
}

func (tt *TermTable) evalRec(t *Term, x *Term, val uint64) (uint64, bool) {
	switch t.Op {
	case "const":
		return t.V, true
	case "var":
		if t == x {
			return val, true
		}
		return 0, false
	}
	s := &tt.evalMemo[t.id]
	if s.epoch == tt.evalEpoch {
		return s.v, s.ok
	}
	var args [3]uint64
	ok := true
	// short-circuit ite
	if t.Op == "ite" {
		c, cok := tt.evalRec(t.Args[0], x, val)
		var r uint64
		if cok {
			if c == 1 {
				r, ok = tt.evalRec(t.Args[1], x, val)
			} else {
				r, ok = tt.evalRec(t.Args[2], x, val)
			}
		} else {
			ok = false
		}
		s.epoch, s.v, s.ok = tt.evalEpoch, r, ok
		return r, ok
	}
	for i, a := range t.Args {
		v, aok := tt.evalRec(a, x, val)
		if !aok {
			ok = false
			break
		}
		args[i] = v
	}
	var r uint64
	if ok {
		r, ok = evalOp(t, args)
	}
	s.epoch, s.v, s.ok = tt.evalEpoch, r, ok
	return r, ok
}

func b2u(b bool) uint64 {
	if b {
		return 1
	}
	return 0
}

func evalOp(t *Term, args [3]uint64) (uint64, bool) {
	w := t.S.W
	switch t.Op {
	case "not":
		return 1 - args[0], true
	case "and":
		return args[0] & args[1], true
	case "or":
		return args[0] | args[1], true
	case "=":
		if t.Args[0].S.K == SFP {
			return 0, false
		}
		return b2u(args[0] == args[1]), true
	case "bvult":
		return b2u(args[0] < args[1]), true
	case "bvule":
		return b2u(args[0] <= args[1]), true
	case "bvslt":
		return b2u(sext(args[0], t.Args[0].S.W) < sext(args[1], t.Args[0].S.W)), true
	case "bvsle":
		return b2u(sext(args[0], t.Args[0].S.W) <= sext(args[1], t.Args[0].S.W)), true
	case "bvnot":
		return ^args[0] & mask(w), true
	case "bvneg":
		return -args[0] & mask(w), true
	case "extract":
		return (args[0] >> uint(t.P2)) & mask(w), true
	case "zero_extend":
		return args[0], true
	case "sign_extend":
		return uint64(sext(args[0], t.Args[0].S.W)) & mask(w), true
	case "concat":
		if w > 64 {
			return 0, false
		}
		return args[0]<<uint(t.Args[1].S.W) | args[1], true
	case "bvadd", "bvsub", "bvmul", "bvand", "bvor", "bvxor", "bvudiv", "bvurem", "bvsdiv", "bvsrem", "bvshl", "bvlshr", "bvashr":
		return (&TermTable{}).bvConstFold(t.Op, w, args[0], args[1])
	}
	return 0, false
}

func (d *varDomain) has(v int) bool { return d.allowed[v>>6]&(1<<uint(v&63)) != 0 }
func (d *varDomain) del(v int)      { d.allowed[v>>6] &^= 1 << uint(v&63); d.count-- }

func domWidth(x *Term) int {
	switch x.S.K {
	case SBool:
		return 1
	case SBV:
		if x.S.W <= 8 {
			return x.S.W
		}
	}
	return 0
}

func (m *Machine) domainOf(x *Term) *varDomain {
	d := m.ps.dom[x]
	if d == nil {
		d = &varDomain{}
		n := 1 << uint(domWidth(x))
		for v := 0; v < n; v++ {
			d.allowed[v>>6] |= 1 << uint(v&63)
		}
		d.count = n
		m.ps.dom[x] = d
	}
	return d
}

// noteConjunct updates the per-variable domains when c joins the path condition.
func (m *Machine) noteConjunct(c *Term) {
	sup, many := m.tt.support(c)
	if many || len(sup) != 1 || domWidth(sup[0]) == 0 {
		// every small variable in a multi-variable conjunct becomes entangled
		m.entangle(c, map[*Term]bool{})
		return
	}
	x := sup[0]
	d := m.domainOf(x)
	n := 1 << uint(domWidth(x))
	for v := 0; v < n; v++ {
		if !d.has(v) {
			continue
		}
		r, ok := m.tt.evalOne(c, x, uint64(v))
		if !ok {
			d.entangled = true // cannot evaluate: treat as opaque
			return
		}
		if r != 1 {
			d.del(v)
		}
	}
}

func (m *Machine) entangle(t *Term, seen map[*Term]bool) {
	if seen[t] {
		return
	}
	seen[t] = true
	if t.Op == "var" {
		if domWidth(t) > 0 {
			m.domainOf(t).entangled = true
		}
		return
	}
	for _, a := range t.Args {
		m.entangle(a, seen)
	}
}

// domainDecide: 1 = forced true, 0 = forced false, 2 = both feasible, -1 = unknown.
func (m *Machine) domainDecide(c *Term) int {
	if m.NoDomain {
		return -1
	}
	sup, many := m.tt.support(c)
	if many || len(sup) != 1 || domWidth(sup[0]) == 0 {
		return -1
	}
	x := sup[0]
	d := m.domainOf(x)
	n := 1 << uint(domWidth(x))
	sawT, sawF := false, false
	for v := 0; v < n; v++ {
		if !d.has(v) {
			continue
		}
		r, ok := m.tt.evalOne(c, x, uint64(v))
		if !ok {
			return -1
		}
		if r == 1 {
			sawT = true
		} else {
			sawF = true
		}
		if sawT && sawF {
			break
		}
	}
	switch {
	case sawT && !sawF:
		m.domainHits++
		return 1
	case sawF && !sawT:
		m.domainHits++
		return 0
	case sawT && sawF && !d.entangled:
		m.domainHits++
		return 2
	}
	return -1
}
