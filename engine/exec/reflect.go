// Copyright 2013 The Go Authors. All rights reserved.
// Use of this source code is governed by a BSD-style
// license that can be found in the LICENSE file.

package exec

// Emulated "reflect" package.
//
// We completely replace the built-in "reflect" package.
// The only thing clients can depend upon are that reflect.Type is an
// interface and reflect.Value is an (opaque) struct.

import (
	"fmt"
	"go/token"
	"go/types"
	"reflect"
	"unsafe"

	"golang.org/x/tools/go/ssa"
)

type opaqueType struct {
	types.Type
	name string
}

func (t *opaqueType) String() string { return t.name }

// A bogus "reflect" type-checker package.  Shared across interpreters.
var reflectTypesPackage = types.NewPackage("reflect", "reflect")

// rtype is the concrete type the interpreter uses to implement the
// reflect.Type interface.
//
// type rtype <opaque>
var rtypeType = makeNamedType("rtype", &opaqueType{nil, "rtype"})

// error is an (interpreted) named type whose underlying type is string.
// The interpreter uses it for all implementations of the built-in error
// interface that it creates.
// We put it in the "reflect" package for expedience.
//
// type error string
var errorType = makeNamedType("error", &opaqueType{nil, "error"})

func makeNamedType(name string, underlying types.Type) *types.Named {
	obj := types.NewTypeName(token.NoPos, reflectTypesPackage, name, nil)
	return types.NewNamed(obj, underlying, nil)
}

func makeReflectValue(t types.Type, v value) value {
	return structure{rtype{t}, v, iface{}}
}

// makeReflectValueAddr makes an addressable reflect.Value for the cell p.
func makeReflectValueAddr(t types.Type, p *value) value {
	return structure{rtype{t}, *p, iface{types.NewPointer(t), p}}
}

// rV2A returns the address of an addressable reflect.Value, or nil.
func rV2A(v value) *value {
	s := v.(structure)
	if len(s) < 3 {
		return nil
	}
	if it, ok := s[2].(iface); ok && it.t != nil {
		return it.v.(*value)
	}
	return nil
}

// Given a reflect.Value, returns its rtype.
func rV2T(v value) rtype {
	return v.(structure)[0].(rtype)
}

// Given a reflect.Value, returns the underlying interpreter value.
func rV2V(v value) value {
	if a := rV2A(v); a != nil {
		return *a
	}
	return v.(structure)[1]
}

// makeReflectType boxes up an rtype in a reflect.Type interface.
func makeReflectType(rt rtype) value {
	return iface{rtypeType, rt}
}

func ext۰reflect۰rtype۰Bits(fr *frame, args []value) value {
	// Signature: func (t reflect.rtype) int
	rt := args[0].(rtype).t
	basic, ok := rt.Underlying().(*types.Basic)
	if !ok {
		panic(fmt.Sprintf("reflect.Type.Bits(%T): non-basic type", rt))
	}
	return int(fr.i.sizes.Sizeof(basic)) * 8
}

func ext۰reflect۰rtype۰Elem(fr *frame, args []value) value {
	// Signature: func (t reflect.rtype) reflect.Type
	return makeReflectType(rtype{args[0].(rtype).t.Underlying().(interface {
		Elem() types.Type
	}).Elem()})
}

func ext۰reflect۰rtype۰Field(fr *frame, args []value) value {
	// Signature: func (t reflect.rtype, i int) reflect.StructField
	st := args[0].(rtype).t.Underlying().(*types.Struct)
	i := args[1].(int)
	f := st.Field(i)
	return structure{
		f.Name(),
		f.Pkg().Path(),
		makeReflectType(rtype{f.Type()}),
		st.Tag(i),
		0,         // TODO(adonovan): offset
		[]value{}, // TODO(adonovan): indices
		f.Anonymous(),
	}
}

func ext۰reflect۰rtype۰In(fr *frame, args []value) value {
	// Signature: func (t reflect.rtype, i int) int
	i := args[1].(int)
	return makeReflectType(rtype{args[0].(rtype).t.(*types.Signature).Params().At(i).Type()})
}

func ext۰reflect۰rtype۰Kind(fr *frame, args []value) value {
	// Signature: func (t reflect.rtype) uint
	return uint(reflectKind(args[0].(rtype).t))
}

func ext۰reflect۰rtype۰NumField(fr *frame, args []value) value {
	// Signature: func (t reflect.rtype) int
	return args[0].(rtype).t.Underlying().(*types.Struct).NumFields()
}

func ext۰reflect۰rtype۰NumIn(fr *frame, args []value) value {
	// Signature: func (t reflect.rtype) int
	return args[0].(rtype).t.Underlying().(*types.Signature).Params().Len()
}

func ext۰reflect۰rtype۰NumMethod(fr *frame, args []value) value {
	// Signature: func (t reflect.rtype) int
	return fr.i.prog.MethodSets.MethodSet(args[0].(rtype).t).Len()
}

func ext۰reflect۰rtype۰NumOut(fr *frame, args []value) value {
	// Signature: func (t reflect.rtype) int
	return args[0].(rtype).t.Underlying().(*types.Signature).Results().Len()
}

func ext۰reflect۰rtype۰Out(fr *frame, args []value) value {
	// Signature: func (t reflect.rtype, i int) int
	i := args[1].(int)
	return makeReflectType(rtype{args[0].(rtype).t.Underlying().(*types.Signature).Results().At(i).Type()})
}

func ext۰reflect۰rtype۰Size(fr *frame, args []value) value {
	// Signature: func (t reflect.rtype) uintptr
	return uintptr(fr.i.sizes.Sizeof(args[0].(rtype).t))
}

func ext۰reflect۰rtype۰String(fr *frame, args []value) value {
	// Signature: func (t reflect.rtype) string
	return args[0].(rtype).t.String()
}

func ext۰reflect۰New(fr *frame, args []value) value {
	// Signature: func (t reflect.Type) reflect.Value
	t := args[0].(iface).v.(rtype).t
	alloc := zero(t)
	return makeReflectValue(types.NewPointer(t), &alloc)
}

func ext۰reflect۰SliceOf(fr *frame, args []value) value {
	// Signature: func (t reflect.rtype) Type
	return makeReflectType(rtype{types.NewSlice(args[0].(iface).v.(rtype).t)})
}

func ext۰reflect۰TypeOf(fr *frame, args []value) value {
	// Signature: func (t reflect.rtype) Type
	return makeReflectType(rtype{args[0].(iface).t})
}

func ext۰reflect۰ValueOf(fr *frame, args []value) value {
	// Signature: func (interface{}) reflect.Value
	itf := args[0].(iface)
	return makeReflectValue(itf.t, itf.v)
}

func ext۰reflect۰Zero(fr *frame, args []value) value {
	// Signature: func (t reflect.Type) reflect.Value
	t := args[0].(iface).v.(rtype).t
	return makeReflectValue(t, zero(t))
}

func reflectKind(t types.Type) reflect.Kind {
	switch t := t.(type) {
	case *types.Named, *types.Alias:
		return reflectKind(t.Underlying())
	case *types.Basic:
		switch t.Kind() {
		case types.Bool:
			return reflect.Bool
		case types.Int:
			return reflect.Int
		case types.Int8:
			return reflect.Int8
		case types.Int16:
			return reflect.Int16
		case types.Int32:
			return reflect.Int32
		case types.Int64:
			return reflect.Int64
		case types.Uint:
			return reflect.Uint
		case types.Uint8:
			return reflect.Uint8
		case types.Uint16:
			return reflect.Uint16
		case types.Uint32:
			return reflect.Uint32
		case types.Uint64:
			return reflect.Uint64
		case types.Uintptr:
			return reflect.Uintptr
		case types.Float32:
			return reflect.Float32
		case types.Float64:
			return reflect.Float64
		case types.Complex64:
			return reflect.Complex64
		case types.Complex128:
			return reflect.Complex128
		case types.String:
			return reflect.String
		case types.UnsafePointer:
			return reflect.UnsafePointer
		}
	case *types.Array:
		return reflect.Array
	case *types.Chan:
		return reflect.Chan
	case *types.Signature:
		return reflect.Func
	case *types.Interface:
		return reflect.Interface
	case *types.Map:
		return reflect.Map
	case *types.Pointer:
		return reflect.Ptr
	case *types.Slice:
		return reflect.Slice
	case *types.Struct:
		return reflect.Struct
	}
	panic(fmt.Sprint("unexpected type: ", t))
}

func ext۰reflect۰Value۰Kind(fr *frame, args []value) value {
	// Signature: func (reflect.Value) uint
	return uint(reflectKind(rV2T(args[0]).t))
}

func ext۰reflect۰Value۰String(fr *frame, args []value) value {
	// Signature: func (reflect.Value) string
	return toString(rV2V(args[0]))
}

func ext۰reflect۰Value۰Type(fr *frame, args []value) value {
	// Signature: func (reflect.Value) reflect.Type
	return makeReflectType(rV2T(args[0]))
}

func ext۰reflect۰Value۰Uint(fr *frame, args []value) value {
	// Signature: func (reflect.Value) uint64
	switch v := rV2V(args[0]).(type) {
	case uint:
		return uint64(v)
	case uint8:
		return uint64(v)
	case uint16:
		return uint64(v)
	case uint32:
		return uint64(v)
	case uint64:
		return uint64(v)
	case uintptr:
		return uint64(v)
	}
	panic("reflect.Value.Uint")
}

func ext۰reflect۰Value۰Len(fr *frame, args []value) value {
	// Signature: func (reflect.Value) int
	switch v := rV2V(args[0]).(type) {
	case string:
		return len(v)
	case array:
		return len(v)
	case symstr:
		return len(v)
	case *channel:
		return len(v.buf)
	case []value:
		return len(v)
	case *amap:
		return v.len()
	default:
		panic(fmt.Sprintf("reflect.(Value).Len(%v)", v))
	}
}

func ext۰reflect۰Value۰NumField(fr *frame, args []value) value {
	// Signature: func (reflect.Value) int
	return len(rV2V(args[0]).(structure))
}

func ext۰reflect۰Value۰NumMethod(fr *frame, args []value) value {
	// Signature: func (reflect.Value) int
	return fr.i.prog.MethodSets.MethodSet(rV2T(args[0]).t).Len()
}

func ext۰reflect۰Value۰Pointer(fr *frame, args []value) value {
	// Signature: func (v reflect.Value) uintptr
	switch v := rV2V(args[0]).(type) {
	case *value:
		return uintptr(unsafe.Pointer(v))
	case *channel:
		return uintptr(unsafe.Pointer(v))
	case []value:
		return reflect.ValueOf(v).Pointer()
	case *amap:
		return uintptr(unsafe.Pointer(v))
	case *ssa.Function:
		return uintptr(unsafe.Pointer(v))
	case *closure:
		return uintptr(unsafe.Pointer(v))
	default:
		panic(fmt.Sprintf("reflect.(Value).Pointer(%T)", v))
	}
}

func ext۰reflect۰Value۰Index(fr *frame, args []value) value {
	// Signature: func (v reflect.Value, i int) Value
	i := int(fr.i.concreteInt(args[1], "reflect index"))
	t := rV2T(args[0]).t.Underlying()
	chk := func(n int) {
		if i < 0 || i >= n {
			panic(targetPanic{iface{types.Typ[types.String], "reflect: array index out of range"}})
		}
	}
	switch v := rV2V(args[0]).(type) {
	case array:
		chk(len(v))
		if rV2A(args[0]) != nil {
			return makeReflectValueAddr(t.(*types.Array).Elem(), &v[i])
		}
		return makeReflectValue(t.(*types.Array).Elem(), v[i])
	case []value:
		chk(len(v))
		return makeReflectValueAddr(t.(*types.Slice).Elem(), &v[i])
	case string:
		chk(len(v))
		return makeReflectValue(types.Typ[types.Uint8], v[i])
	default:
		panic(fmt.Sprintf("reflect.(Value).Index(%T)", v))
	}
}

func ext۰reflect۰Value۰Bool(fr *frame, args []value) value {
	// Signature: func (reflect.Value) bool
	return rV2V(args[0]).(bool)
}

func ext۰reflect۰Value۰CanAddr(fr *frame, args []value) value {
	return rV2A(args[0]) != nil
}

func ext۰reflect۰Value۰CanInterface(fr *frame, args []value) value {
	// Signature: func (v reflect.Value) bool
	// Always true for our representation.
	return true
}

func ext۰reflect۰Value۰Elem(fr *frame, args []value) value {
	// Signature: func (v reflect.Value) reflect.Value
	switch x := rV2V(args[0]).(type) {
	case iface:
		return makeReflectValue(x.t, x.v)
	case *value:
		et := rV2T(args[0]).t.Underlying().(*types.Pointer).Elem()
		if x == nil {
			return makeReflectValue(et, nil)
		}
		return makeReflectValueAddr(et, x)
	default:
		panic(fmt.Sprintf("reflect.(Value).Elem(%T)", x))
	}
}

func ext۰reflect۰Value۰Field(fr *frame, args []value) value {
	// Signature: func (v reflect.Value, i int) reflect.Value
	v := args[0]
	i := args[1].(int)
	ft := rV2T(v).t.Underlying().(*types.Struct).Field(i).Type()
	if a := rV2A(v); a != nil {
		// a field of an addressable struct is addressable
		return makeReflectValueAddr(ft, &(*a).(structure)[i])
	}
	return makeReflectValue(ft, rV2V(v).(structure)[i])
}

func ext۰reflect۰Value۰FieldByName(fr *frame, args []value) value {
	st := rV2T(args[0]).t.Underlying().(*types.Struct)
	name, ok := args[1].(string)
	if !ok {
		unsupported("reflect.Value.FieldByName with a symbolic name")
	}
	for i := 0; i < st.NumFields(); i++ {
		if st.Field(i).Name() == name {
			return ext۰reflect۰Value۰Field(fr, []value{args[0], i})
		}
	}
	return makeReflectValue(nil, nil)
}

func ext۰reflect۰Value۰UnsafeAddr(fr *frame, args []value) value {
	a := rV2A(args[0])
	if a == nil {
		panic(targetPanic{iface{types.Typ[types.String], "reflect.Value.UnsafeAddr of unaddressable value"}})
	}
	return uintptr(unsafe.Pointer(a))
}

func ext۰reflect۰NewAt(fr *frame, args []value) value {
	t := args[0].(iface).v.(rtype).t
	p, _ := args[1].(unsafe.Pointer)
	return makeReflectValue(types.NewPointer(t), (*value)(p))
}

func ext۰reflect۰Value۰Float(fr *frame, args []value) value {
	// Signature: func (reflect.Value) float64
	switch v := rV2V(args[0]).(type) {
	case float32:
		return float64(v)
	case float64:
		return float64(v)
	}
	panic("reflect.Value.Float")
}

func ext۰reflect۰Value۰Interface(fr *frame, args []value) value {
	// Signature: func (v reflect.Value) interface{}
	return ext۰reflect۰valueInterface(fr, args)
}

func ext۰reflect۰Value۰Int(fr *frame, args []value) value {
	// Signature: func (reflect.Value) int64
	switch x := rV2V(args[0]).(type) {
	case int:
		return int64(x)
	case int8:
		return int64(x)
	case int16:
		return int64(x)
	case int32:
		return int64(x)
	case int64:
		return x
	default:
		panic(fmt.Sprintf("reflect.(Value).Int(%T)", x))
	}
}

func ext۰reflect۰Value۰IsNil(fr *frame, args []value) value {
	// Signature: func (reflect.Value) bool
	switch x := rV2V(args[0]).(type) {
	case *value:
		return x == nil
	case *channel:
		return x == nil
	case *amap:
		return x == nil
	case iface:
		return x.t == nil
	case []value:
		return x == nil
	case *ssa.Function:
		return x == nil
	case *ssa.Builtin:
		return x == nil
	case *closure:
		return x == nil
	default:
		panic(fmt.Sprintf("reflect.(Value).IsNil(%T)", x))
	}
}

func ext۰reflect۰Value۰IsValid(fr *frame, args []value) value {
	// Signature: func (reflect.Value) bool
	return rV2V(args[0]) != nil
}

func ext۰reflect۰Value۰Set(fr *frame, args []value) value {
	a := rV2A(args[0])
	if a == nil {
		panic(targetPanic{iface{types.Typ[types.String], "reflect.Value.Set using unaddressable value"}})
	}
	dt := rV2T(args[0]).t
	v := rV2V(args[1])
	if types.IsInterface(dt) {
		if _, isI := v.(iface); !isI {
			v = iface{rV2T(args[1]).t, v}
		}
	}
	fr.i.store(dt, a, copyVal(v))
	return nil
}

func ext۰reflect۰valueInterface(fr *frame, args []value) value {
	// Signature: func (v reflect.Value, safe bool) interface{}
	v := args[0].(structure)
	if a := rV2A(v); a != nil {
		return iface{rV2T(v).t, load(rV2T(v).t, a)}
	}
	return iface{rV2T(v).t, rV2V(v)}
}

func ext۰reflect۰error۰Error(fr *frame, args []value) value {
	return args[0]
}

// newMethod creates a new method of the specified name, package and receiver type.
func newMethod(pkg *ssa.Package, recvType types.Type, name string) *ssa.Function {
	// TODO(adonovan): fix: hack: currently the only part of Signature
	// that is needed is the "pointerness" of Recv.Type, and for
	// now, we'll set it to always be false since we're only
	// concerned with rtype.  Encapsulate this better.
	sig := types.NewSignature(types.NewVar(token.NoPos, nil, "recv", recvType), nil, nil, false)
	fn := pkg.Prog.NewFunction(name, sig, "fake reflect method")
	fn.Pkg = pkg
	return fn
}

func initReflect(i *Machine) {
	i.reflectPackage = &ssa.Package{
		Prog:    i.prog,
		Pkg:     reflectTypesPackage,
		Members: make(map[string]ssa.Member),
	}

	// Clobber the type-checker's notion of reflect.Value's
	// underlying type so that it more closely matches the fake one
	// (at least in the number of fields---we lie about the type of
	// the rtype field).
	//
	// We must ensure that calls to (ssa.Value).Type() return the
	// fake type so that correct "shape" is used when allocating
	// variables, making zero values, loading, and storing.
	//
	// TODO(adonovan): obviously this is a hack.  We need a cleaner
	// way to fake the reflect package (almost---DeepEqual is fine).
	// One approach would be not to even load its source code, but
	// provide fake source files.  This would guarantee that no bad
	// information leaks into other packages.
	if r := i.prog.ImportedPackage("reflect"); r != nil {
		rV := r.Pkg.Scope().Lookup("Value").Type().(*types.Named)

		// delete bodies of the old methods
		mset := i.prog.MethodSets.MethodSet(rV)
		for j := 0; j < mset.Len(); j++ {
			i.prog.MethodValue(mset.At(j)).Blocks = nil
		}

		tEface := types.NewInterface(nil, nil).Complete()
		rV.SetUnderlying(types.NewStruct([]*types.Var{
			types.NewField(token.NoPos, r.Pkg, "t", tEface, false), // a lie
			types.NewField(token.NoPos, r.Pkg, "v", tEface, false),
			types.NewField(token.NoPos, r.Pkg, "a", tEface, false),
		}, nil))
	}

	i.rtypeMethods = methodSet{
		"Name":       newMethod(i.reflectPackage, rtypeType, "Name"),
		"PkgPath":    newMethod(i.reflectPackage, rtypeType, "PkgPath"),
		"Len":        newMethod(i.reflectPackage, rtypeType, "Len"),
		"Comparable": newMethod(i.reflectPackage, rtypeType, "Comparable"),
		"Bits":       newMethod(i.reflectPackage, rtypeType, "Bits"),
		"Elem":       newMethod(i.reflectPackage, rtypeType, "Elem"),
		"Field":      newMethod(i.reflectPackage, rtypeType, "Field"),
		"In":         newMethod(i.reflectPackage, rtypeType, "In"),
		"Kind":       newMethod(i.reflectPackage, rtypeType, "Kind"),
		"NumField":   newMethod(i.reflectPackage, rtypeType, "NumField"),
		"NumIn":      newMethod(i.reflectPackage, rtypeType, "NumIn"),
		"NumMethod":  newMethod(i.reflectPackage, rtypeType, "NumMethod"),
		"NumOut":     newMethod(i.reflectPackage, rtypeType, "NumOut"),
		"Out":        newMethod(i.reflectPackage, rtypeType, "Out"),
		"Size":       newMethod(i.reflectPackage, rtypeType, "Size"),
		"String":     newMethod(i.reflectPackage, rtypeType, "String"),
	}
	i.errorMethods = methodSet{
		"Error": newMethod(i.reflectPackage, errorType, "Error"),
	}
}

// ---- additions for the repository's use of reflect on arrays and slices

func ext۰reflect۰rtype۰Name(fr *frame, args []value) value {
	if n, ok := args[0].(rtype).t.(*types.Named); ok {
		return n.Obj().Name()
	}
	if b, ok := args[0].(rtype).t.(*types.Basic); ok {
		return b.Name()
	}
	return ""
}

func ext۰reflect۰rtype۰PkgPath(fr *frame, args []value) value {
	if n, ok := args[0].(rtype).t.(*types.Named); ok && n.Obj().Pkg() != nil {
		return n.Obj().Pkg().Path()
	}
	return ""
}

func ext۰reflect۰rtype۰Len(fr *frame, args []value) value {
	return int(args[0].(rtype).t.Underlying().(*types.Array).Len())
}

func ext۰reflect۰rtype۰Comparable(fr *frame, args []value) value {
	return types.Comparable(args[0].(rtype).t)
}

func ext۰reflect۰ArrayOf(fr *frame, args []value) value {
	// Signature: func (length int, elem Type) Type
	n := fr.i.concreteInt(args[0], "reflect.ArrayOf length")
	if n < 0 {
		panic(targetPanic{iface{types.Typ[types.String], "reflect: negative length passed to ArrayOf"}})
	}
	return makeReflectType(rtype{types.NewArray(args[1].(iface).v.(rtype).t, n)})
}

// reflect.Value of an addressable location: v is a *value and the type is the
// element type; we mark it by wrapping in addrValue.
type addrValue struct{ p *value }

func ext۰reflect۰Indirect(fr *frame, args []value) value {
	if _, ok := rV2V(args[0]).(*value); ok {
		return ext۰reflect۰Value۰Elem(fr, args)
	}
	return args[0]
}

func ext۰reflect۰Value۰Addr(fr *frame, args []value) value {
	a := rV2A(args[0])
	if a == nil {
		panic(targetPanic{iface{types.Typ[types.String], "reflect.Value.Addr of unaddressable value"}})
	}
	return makeReflectValue(types.NewPointer(rV2T(args[0]).t), a)
}

func ext۰reflect۰Value۰Slice(fr *frame, args []value) value {
	unsupported("reflect.Value.Slice")
	return nil
}

// reflect.Copy(dst, src Value) int: dst is an array obtained through
// reflect.New(...).Elem() or a slice.
func ext۰reflect۰Copy(fr *frame, args []value) value {
	m := fr.i
	var dst []value
	switch d := rV2V(args[0]).(type) {
	case array:
		dst = d
	case []value:
		dst = d
	default:
		panic(fmt.Sprintf("reflect.Copy dst %T", d))
	}
	var src []value
	switch s := rV2V(args[1]).(type) {
	case array:
		src = s
	case []value:
		src = s
	case string, symstr:
		src = strBytes(s)
	default:
		panic(fmt.Sprintf("reflect.Copy src %T", s))
	}
	n := len(dst)
	if len(src) < n {
		n = len(src)
	}
	for i := 0; i < n; i++ {
		m.setCell(&dst[i], copyVal(src[i]))
	}
	return n
}
