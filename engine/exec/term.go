package exec

// Hash-consed SMT terms with local simplification.

import (
	"fmt"
	"math"
	"math/bits"
	"strings"
)

type SortKind uint8

const (
	SBool SortKind = iota
	SBV
	SFP // W = 64 or 32
)

type Sort struct {
	K SortKind
	W int
}

var (
	sortBool = Sort{SBool, 0}
	sortF64  = Sort{SFP, 64}
	sortF32  = Sort{SFP, 32}
)

func bvSort(w int) Sort { return Sort{SBV, w} }

func (s Sort) smt() string {
	switch s.K {
	case SBool:
		return "Bool"
	case SBV:
		return fmt.Sprintf("(_ BitVec %d)", s.W)
	case SFP:
		if s.W == 64 {
			return "(_ FloatingPoint 11 53)"
		}
		return "(_ FloatingPoint 8 24)"
	}
	panic("bad sort")
}

// Term is an immutable hash-consed SMT term. It is also an interpreter
// value (a symbolic scalar).
type Term struct {
	Op     string
	Args   []*Term
	S      Sort
	V      uint64 // constant payload (bv value, bool 0/1, fp bits)
	P1, P2 int    // extract hi/lo, extension amount
	Name   string // variable name
	id     int
	epoch  int // solver emission epoch (see solver.go)

	sup     []*Term // free variables (if at most 2)
	supMany bool
	supDone bool
}

func (t *Term) IsConst() bool { return t.Op == "const" }
func (t *Term) IsTrue() bool  { return t.Op == "const" && t.S.K == SBool && t.V == 1 }
func (t *Term) IsFalse() bool { return t.Op == "const" && t.S.K == SBool && t.V == 0 }

type termKey struct {
	op         string
	a0, a1, a2 int
	v          uint64
	p1, p2     int
	name       string
	s          Sort
}

// TermTable owns the terms of one worker.
type TermTable struct {
	tab       map[termKey]*Term
	terms     []*Term
	evalMemo  []evalSlot
	evalEpoch int
}

func NewTermTable() *TermTable {
	return &TermTable{tab: make(map[termKey]*Term)}
}

func (tt *TermTable) mk(op string, s Sort, v uint64, p1, p2 int, name string, args ...*Term) *Term {
	k := termKey{op: op, v: v, p1: p1, p2: p2, name: name, s: s, a0: -1, a1: -1, a2: -1}
	if len(args) > 3 {
		panic("term arity")
	}
	if len(args) > 0 {
		k.a0 = args[0].id
	}
	if len(args) > 1 {
		k.a1 = args[1].id
	}
	if len(args) > 2 {
		k.a2 = args[2].id
	}
	if t, ok := tt.tab[k]; ok {
		return t
	}
	t := &Term{Op: op, Args: args, S: s, V: v, P1: p1, P2: p2, Name: name, id: len(tt.terms)}
	tt.terms = append(tt.terms, t)
	tt.tab[k] = t
	return t
}

func mask(w int) uint64 {
	if w >= 64 {
		return ^uint64(0)
	}
	return (uint64(1) << uint(w)) - 1
}

func sext(v uint64, w int) int64 {
	if w >= 64 {
		return int64(v)
	}
	sh := uint(64 - w)
	return int64(v<<sh) >> sh
}

func (tt *TermTable) Var(name string, s Sort) *Term { return tt.mk("var", s, 0, 0, 0, name) }
func (tt *TermTable) BV(v uint64, w int) *Term      { return tt.mk("const", bvSort(w), v&mask(w), 0, 0, "") }
func (tt *TermTable) Bool(b bool) *Term {
	if b {
		return tt.mk("const", sortBool, 1, 0, 0, "")
	}
	return tt.mk("const", sortBool, 0, 0, 0, "")
}
func (tt *TermTable) F64(f float64) *Term {
	return tt.mk("const", sortF64, math.Float64bits(f), 0, 0, "")
}
func (tt *TermTable) F32(f float32) *Term {
	return tt.mk("const", sortF32, uint64(math.Float32bits(f)), 0, 0, "")
}

// ---- Boolean connectives

func (tt *TermTable) Not(a *Term) *Term {
	if a.IsConst() {
		return tt.Bool(a.V == 0)
	}
	if a.Op == "not" {
		return a.Args[0]
	}
	return tt.mk("not", sortBool, 0, 0, 0, "", a)
}

func (tt *TermTable) And(a, b *Term) *Term {
	if a.IsConst() {
		if a.V == 0 {
			return a
		}
		return b
	}
	if b.IsConst() {
		if b.V == 0 {
			return b
		}
		return a
	}
	if a == b {
		return a
	}
	if a.id > b.id {
		a, b = b, a
	}
	return tt.mk("and", sortBool, 0, 0, 0, "", a, b)
}

func (tt *TermTable) Or(a, b *Term) *Term {
	if a.IsConst() {
		if a.V == 1 {
			return a
		}
		return b
	}
	if b.IsConst() {
		if b.V == 1 {
			return b
		}
		return a
	}
	if a == b {
		return a
	}
	if a.id > b.id {
		a, b = b, a
	}
	return tt.mk("or", sortBool, 0, 0, 0, "", a, b)
}

func (tt *TermTable) Implies(a, b *Term) *Term { return tt.Or(tt.Not(a), b) }

func (tt *TermTable) Ite(c, a, b *Term) *Term {
	if c.IsConst() {
		if c.V == 1 {
			return a
		}
		return b
	}
	if a == b {
		return a
	}
	if a.S != b.S {
		panic(fmt.Sprintf("ite sort mismatch %v %v", a.S, b.S))
	}
	if a.S.K == SBool {
		if a.IsConst() && b.IsConst() {
			if a.V == 1 {
				return c
			}
			return tt.Not(c)
		}
		if a.IsTrue() {
			return tt.Or(c, b)
		}
		if a.IsFalse() {
			return tt.And(tt.Not(c), b)
		}
		if b.IsTrue() {
			return tt.Or(tt.Not(c), a)
		}
		if b.IsFalse() {
			return tt.And(c, a)
		}
	}
	if c.Op == "not" {
		return tt.mk("ite", a.S, 0, 0, 0, "", c.Args[0], b, a)
	}
	return tt.mk("ite", a.S, 0, 0, 0, "", c, a, b)
}

// Eq is SMT "=" (structural; for FP use FPEq for Go ==).
func (tt *TermTable) Eq(a, b *Term) *Term {
	if a == b {
		return tt.Bool(true)
	}
	if a.S != b.S {
		panic(fmt.Sprintf("eq sort mismatch %v %v", a.S, b.S))
	}
	if a.IsConst() && b.IsConst() {
		if a.S.K == SFP {
			// structural: NaN = NaN. bits compare except NaNs.
			if isNaNBits(a) && isNaNBits(b) {
				return tt.Bool(true)
			}
		}
		return tt.Bool(a.V == b.V)
	}
	if a.S.K == SBool {
		if a.IsConst() {
			a, b = b, a
		}
		if b.IsConst() {
			if b.V == 1 {
				return a
			}
			return tt.Not(a)
		}
	}
	// eq(ite(c, k1, k2), k) with constants
	if b.IsConst() && a.Op == "ite" && a.Args[1].IsConst() && a.Args[2].IsConst() {
		return tt.Ite(a.Args[0], tt.Eq(a.Args[1], b), tt.Eq(a.Args[2], b))
	}
	if a.IsConst() && b.Op == "ite" && b.Args[1].IsConst() && b.Args[2].IsConst() {
		return tt.Ite(b.Args[0], tt.Eq(b.Args[1], a), tt.Eq(b.Args[2], a))
	}
	// eq(zero_extend(x), const)
	if b.IsConst() && a.Op == "zero_extend" {
		iw := a.Args[0].S.W
		if b.V&^mask(iw) != 0 {
			return tt.Bool(false)
		}
		return tt.Eq(a.Args[0], tt.BV(b.V, iw))
	}
	if a.IsConst() && b.Op == "zero_extend" {
		return tt.Eq(b, a)
	}
	if a.id > b.id {
		a, b = b, a
	}
	return tt.mk("=", sortBool, 0, 0, 0, "", a, b)
}

func isNaNBits(t *Term) bool {
	if t.S.W == 64 {
		return math.IsNaN(math.Float64frombits(t.V))
	}
	f := math.Float32frombits(uint32(t.V))
	return f != f
}

// ---- bit-vectors

func (tt *TermTable) bvConstFold(op string, w int, x, y uint64) (uint64, bool) {
	m := mask(w)
	switch op {
	case "bvadd":
		return (x + y) & m, true
	case "bvsub":
		return (x - y) & m, true
	case "bvmul":
		return (x * y) & m, true
	case "bvand":
		return x & y, true
	case "bvor":
		return x | y, true
	case "bvxor":
		return x ^ y, true
	case "bvudiv":
		if y == 0 {
			return m, true
		}
		return x / y, true
	case "bvurem":
		if y == 0 {
			return x, true
		}
		return x % y, true
	case "bvsdiv":
		if y == 0 {
			return 0, false
		}
		sx, sy := sext(x, w), sext(y, w)
		if sy == -1 {
			return uint64(-sx) & m, true
		}
		return uint64(sx/sy) & m, true
	case "bvsrem":
		if y == 0 {
			return 0, false
		}
		sx, sy := sext(x, w), sext(y, w)
		if sy == -1 {
			return 0, true
		}
		return uint64(sx%sy) & m, true
	case "bvshl":
		if y >= uint64(w) {
			return 0, true
		}
		return (x << y) & m, true
	case "bvlshr":
		if y >= uint64(w) {
			return 0, true
		}
		return x >> y, true
	case "bvashr":
		sx := sext(x, w)
		if y >= uint64(w) {
			y = uint64(w - 1)
		}
		return uint64(sx>>y) & m, true
	}
	return 0, false
}

// BVBin builds a binary bit-vector operation of the arguments' width.
func (tt *TermTable) BVBin(op string, a, b *Term) *Term {
	if a.S != b.S || a.S.K != SBV {
		panic(fmt.Sprintf("BVBin %s sort mismatch %v %v", op, a.S, b.S))
	}
	w := a.S.W
	if a.IsConst() && b.IsConst() {
		if v, ok := tt.bvConstFold(op, w, a.V, b.V); ok {
			return tt.BV(v, w)
		}
	}
	if op == "bvadd" || op == "bvsub" {
		if lin(a) || lin(b) {
			if r := tt.linNormal(op, a, b); r != nil {
				return r
			}
		}
	}
	switch op {
	case "bvadd", "bvor", "bvxor":
		if a.IsConst() && a.V == 0 {
			return b
		}
		if b.IsConst() && b.V == 0 {
			return a
		}
	case "bvsub":
		if b.IsConst() && b.V == 0 {
			return a
		}
		if a == b {
			return tt.BV(0, w)
		}
	case "bvand":
		if a.IsConst() && a.V == 0 {
			return a
		}
		if b.IsConst() && b.V == 0 {
			return b
		}
		if a.IsConst() && a.V == mask(w) {
			return b
		}
		if b.IsConst() && b.V == mask(w) {
			return a
		}
		if a == b {
			return a
		}
	case "bvmul":
		if a.IsConst() && a.V == 1 {
			return b
		}
		if b.IsConst() && b.V == 1 {
			return a
		}
		if a.IsConst() && a.V == 0 {
			return a
		}
		if b.IsConst() && b.V == 0 {
			return b
		}
	case "bvshl", "bvlshr", "bvashr":
		if b.IsConst() && b.V == 0 {
			return a
		}
	}
	switch op {
	case "bvadd", "bvmul", "bvand", "bvor", "bvxor":
		if a.id > b.id {
			a, b = b, a
		}
	}
	return tt.mk(op, a.S, 0, 0, 0, "", a, b)
}

func (tt *TermTable) BVNot(a *Term) *Term {
	if a.IsConst() {
		return tt.BV(^a.V, a.S.W)
	}
	if a.Op == "bvnot" {
		return a.Args[0]
	}
	return tt.mk("bvnot", a.S, 0, 0, 0, "", a)
}

func (tt *TermTable) BVNeg(a *Term) *Term {
	if a.IsConst() {
		return tt.BV(-a.V, a.S.W)
	}
	if lin(a) {
		if r := tt.linNormal("bvsub", tt.BV(0, a.S.W), a); r != nil {
			return r
		}
	}
	return tt.mk("bvneg", a.S, 0, 0, 0, "", a)
}

func lin(t *Term) bool { return t.Op == "bvadd" || t.Op == "bvsub" || t.Op == "bvneg" }

// linNormal puts a linear combination (built from bvadd, bvsub, bvneg and
// constants) into a canonical form: operands flattened into coefficients
// modulo 2^w, cancelled, sorted by term id and rebuilt as
// (sum of positive terms) - negative terms + constant, so that combinations
// that are equal as linear forms become the same term. Coefficients other than
// +1 / -1 are rebuilt as repeated additions (they are small: they come from the
// same value being added several times).
func (tt *TermTable) linNormal(op string, a, b *Term) *Term {
	w := a.S.W
	m := mask(w)
	coef := map[*Term]uint64{}
	var vars []*Term
	var c uint64
	n := 0
	var flat func(t *Term, k uint64) bool
	flat = func(t *Term, k uint64) bool {
		n++
		if n > 96 {
			return false
		}
		switch t.Op {
		case "bvadd":
			return flat(t.Args[0], k) && flat(t.Args[1], k)
		case "bvsub":
			return flat(t.Args[0], k) && flat(t.Args[1], -k)
		case "bvneg":
			return flat(t.Args[0], -k)
		case "const":
			c += k * t.V
		default:
			if _, ok := coef[t]; !ok {
				vars = append(vars, t)
			}
			coef[t] += k
		}
		return true
	}
	kb := uint64(1)
	if op == "bvsub" {
		kb = ^uint64(0) // -1
	}
	if !flat(a, 1) || !flat(b, kb) {
		return nil
	}
	for i := 1; i < len(vars); i++ {
		for j := i; j > 0 && vars[j-1].id > vars[j].id; j-- {
			vars[j-1], vars[j] = vars[j], vars[j-1]
		}
	}
	var res *Term
	var negs []*Term
	for _, v := range vars {
		k := coef[v] & m
		switch {
		case k == 0:
		case k <= 8:
			for i := uint64(0); i < k; i++ {
				if res == nil {
					res = v
				} else {
					res = tt.mk("bvadd", v.S, 0, 0, 0, "", res, v)
				}
			}
		case (-k)&m <= 8:
			for i := uint64(0); i < (-k)&m; i++ {
				negs = append(negs, v)
			}
		default:
			return nil // an unusual coefficient: leave the term as it is
		}
	}
	c &= m
	for _, v := range negs {
		if res == nil {
			if c != 0 {
				res = tt.BV(c, w)
				c = 0
			} else {
				res = tt.mk("bvneg", v.S, 0, 0, 0, "", v)
				continue
			}
		}
		res = tt.mk("bvsub", v.S, 0, 0, 0, "", res, v)
	}
	if res == nil {
		return tt.BV(c, w)
	}
	if c != 0 {
		res = tt.mk("bvadd", res.S, 0, 0, 0, "", res, tt.BV(c, w))
	}
	return res
}

// BVCmp: op in bvult bvule bvslt bvsle.
func (tt *TermTable) BVCmp(op string, a, b *Term) *Term {
	if a.S != b.S || a.S.K != SBV {
		panic(fmt.Sprintf("BVCmp %s sort mismatch %v %v", op, a.S, b.S))
	}
	w := a.S.W
	if a.IsConst() && b.IsConst() {
		switch op {
		case "bvult":
			return tt.Bool(a.V < b.V)
		case "bvule":
			return tt.Bool(a.V <= b.V)
		case "bvslt":
			return tt.Bool(sext(a.V, w) < sext(b.V, w))
		case "bvsle":
			return tt.Bool(sext(a.V, w) <= sext(b.V, w))
		}
	}
	if a == b {
		return tt.Bool(op == "bvule" || op == "bvsle")
	}
	// Narrow comparisons of zero-extended values with constants.
	if a.Op == "zero_extend" && b.IsConst() {
		iw := a.Args[0].S.W
		signed := op == "bvslt" || op == "bvsle"
		bv := b.V
		if signed && sext(bv, w) < 0 {
			// zext(x) (non-negative) < negative => false ; <= => false
			return tt.Bool(false)
		}
		if bv&^mask(iw) != 0 {
			// constant above range of x
			return tt.Bool(true)
		}
		uop := "bvult"
		if op == "bvule" || op == "bvsle" {
			uop = "bvule"
		}
		return tt.BVCmp(uop, a.Args[0], tt.BV(bv, iw))
	}
	if b.Op == "zero_extend" && a.IsConst() {
		iw := b.Args[0].S.W
		signed := op == "bvslt" || op == "bvsle"
		av := a.V
		if signed && sext(av, w) < 0 {
			return tt.Bool(true)
		}
		if av&^mask(iw) != 0 {
			return tt.Bool(false)
		}
		uop := "bvult"
		if op == "bvule" || op == "bvsle" {
			uop = "bvule"
		}
		return tt.BVCmp(uop, tt.BV(av, iw), b.Args[0])
	}
	if op == "bvult" && b.IsConst() && b.V == 0 {
		return tt.Bool(false)
	}
	if op == "bvule" && a.IsConst() && a.V == 0 {
		return tt.Bool(true)
	}
	return tt.mk(op, sortBool, 0, 0, 0, "", a, b)
}

func (tt *TermTable) Extract(hi, lo int, a *Term) *Term {
	if a.S.K != SBV || hi >= a.S.W || lo < 0 || hi < lo {
		panic(fmt.Sprintf("bad extract %d %d of %v", hi, lo, a.S))
	}
	w := hi - lo + 1
	if w == a.S.W {
		return a
	}
	if a.IsConst() {
		return tt.BV(a.V>>uint(lo), w)
	}
	switch a.Op {
	case "zero_extend", "sign_extend":
		iw := a.Args[0].S.W
		if hi < iw {
			return tt.Extract(hi, lo, a.Args[0])
		}
		if a.Op == "zero_extend" && lo >= iw {
			return tt.BV(0, w)
		}
		if lo == 0 && a.Op == "zero_extend" {
			return tt.ZeroExt(a.Args[0], w)
		}
		if lo == 0 && a.Op == "sign_extend" {
			return tt.SignExt(a.Args[0], w)
		}
	case "concat":
		lw := a.Args[1].S.W
		if hi < lw {
			return tt.Extract(hi, lo, a.Args[1])
		}
		if lo >= lw {
			return tt.Extract(hi-lw, lo-lw, a.Args[0])
		}
	case "extract":
		return tt.Extract(hi+a.P2, lo+a.P2, a.Args[0])
	}
	return tt.mk("extract", bvSort(w), 0, hi, lo, "", a)
}

// ZeroExt extends a to total width w.
func (tt *TermTable) ZeroExt(a *Term, w int) *Term {
	if a.S.W == w {
		return a
	}
	if a.S.W > w {
		return tt.Extract(w-1, 0, a)
	}
	if a.IsConst() {
		return tt.BV(a.V, w)
	}
	if a.Op == "zero_extend" {
		return tt.ZeroExt(a.Args[0], w)
	}
	return tt.mk("zero_extend", bvSort(w), 0, w-a.S.W, 0, "", a)
}

func (tt *TermTable) SignExt(a *Term, w int) *Term {
	if a.S.W == w {
		return a
	}
	if a.S.W > w {
		return tt.Extract(w-1, 0, a)
	}
	if a.IsConst() {
		return tt.BV(uint64(sext(a.V, a.S.W)), w)
	}
	if a.Op == "zero_extend" {
		return tt.ZeroExt(a.Args[0], w)
	}
	return tt.mk("sign_extend", bvSort(w), 0, w-a.S.W, 0, "", a)
}

func (tt *TermTable) Concat(hi, lo *Term) *Term {
	w := hi.S.W + lo.S.W
	if hi.IsConst() && lo.IsConst() && w <= 64 {
		return tt.BV(hi.V<<uint(lo.S.W)|lo.V, w)
	}
	if hi.IsConst() && hi.V == 0 && w <= 64 {
		return tt.ZeroExt(lo, w)
	}
	return tt.mk("concat", bvSort(w), 0, 0, 0, "", hi, lo)
}

// ---- floating point

func (tt *TermTable) fpConst(s Sort, f float64) *Term {
	if s.W == 64 {
		return tt.F64(f)
	}
	return tt.F32(float32(f))
}

func fpVal(t *Term) float64 {
	if t.S.W == 64 {
		return math.Float64frombits(t.V)
	}
	return float64(math.Float32frombits(uint32(t.V)))
}

// FPBin: fp.add fp.sub fp.mul fp.div (RNE).
func (tt *TermTable) FPBin(op string, a, b *Term) *Term {
	if a.S != b.S || a.S.K != SFP {
		panic("FPBin sort")
	}
	if a.IsConst() && b.IsConst() {
		x, y := fpVal(a), fpVal(b)
		var r float64
		if a.S.W == 32 {
			x32, y32 := float32(x), float32(y)
			var r32 float32
			switch op {
			case "fp.add":
				r32 = x32 + y32
			case "fp.sub":
				r32 = x32 - y32
			case "fp.mul":
				r32 = x32 * y32
			case "fp.div":
				r32 = x32 / y32
			}
			return tt.F32(r32)
		}
		switch op {
		case "fp.add":
			r = x + y
		case "fp.sub":
			r = x - y
		case "fp.mul":
			r = x * y
		case "fp.div":
			r = x / y
		}
		return tt.F64(r)
	}
	return tt.mk(op, a.S, 0, 0, 0, "", a, b)
}

func (tt *TermTable) FPNeg(a *Term) *Term {
	if a.IsConst() {
		if a.S.W == 64 {
			return tt.mk("const", a.S, a.V^(1<<63), 0, 0, "")
		}
		return tt.mk("const", a.S, a.V^(1<<31), 0, 0, "")
	}
	return tt.mk("fp.neg", a.S, 0, 0, 0, "", a)
}

func (tt *TermTable) FPAbs(a *Term) *Term {
	if a.IsConst() {
		if a.S.W == 64 {
			return tt.mk("const", a.S, a.V&^(1<<63), 0, 0, "")
		}
		return tt.mk("const", a.S, a.V&^(1<<31), 0, 0, "")
	}
	return tt.mk("fp.abs", a.S, 0, 0, 0, "", a)
}

// FPCmp: fp.lt fp.leq fp.eq
func (tt *TermTable) FPCmp(op string, a, b *Term) *Term {
	if a.S != b.S || a.S.K != SFP {
		panic("FPCmp sort")
	}
	if a.IsConst() && b.IsConst() {
		x, y := fpVal(a), fpVal(b)
		switch op {
		case "fp.lt":
			return tt.Bool(x < y)
		case "fp.leq":
			return tt.Bool(x <= y)
		case "fp.eq":
			return tt.Bool(x == y)
		}
	}
	if r := tt.fpIntCmp(op, a, b); r != nil {
		return r
	}
	return tt.mk(op, sortBool, 0, 0, 0, "", a, b)
}

func (tt *TermTable) FPIsNaN(a *Term) *Term {
	if a.IsConst() {
		return tt.Bool(isNaNBits(a))
	}
	return tt.mk("fp.isNaN", sortBool, 0, 0, 0, "", a)
}

func (tt *TermTable) FPIsInf(a *Term) *Term {
	if a.IsConst() {
		return tt.Bool(math.IsInf(fpVal(a), 0))
	}
	return tt.mk("fp.isInfinite", sortBool, 0, 0, 0, "", a)
}

// FPFromBits reinterprets a bit-vector as a float (math.Float64frombits).
func (tt *TermTable) FPFromBits(a *Term) *Term {
	s := Sort{SFP, a.S.W}
	if a.IsConst() {
		return tt.mk("const", s, a.V, 0, 0, "")
	}
	return tt.mk("fp_from_bits", s, 0, 0, 0, "", a)
}

// FPFromInt converts a (signed or unsigned) bit-vector to a float, RNE.
func (tt *TermTable) FPFromInt(a *Term, signed bool, s Sort) *Term {
	if a.IsConst() {
		var f float64
		if signed {
			f = float64(sext(a.V, a.S.W))
			if s.W == 32 {
				return tt.F32(float32(sext(a.V, a.S.W)))
			}
		} else {
			f = float64(a.V)
			if s.W == 32 {
				return tt.F32(float32(a.V))
			}
		}
		return tt.F64(f)
	}
	if signed {
		return tt.mk("to_fp_s", s, 0, 0, 0, "", a)
	}
	return tt.mk("to_fp_u", s, 0, 0, 0, "", a)
}

// FPToInt converts with truncation; result unspecified when out of range
// (callers must guard).
func (tt *TermTable) FPToInt(a *Term, signed bool, w int) *Term {
	if signed {
		return tt.mk("fp_to_sbv", bvSort(w), 0, 0, 0, "", a)
	}
	return tt.mk("fp_to_ubv", bvSort(w), 0, 0, 0, "", a)
}

func (tt *TermTable) FPToFP(a *Term, s Sort) *Term {
	if a.S == s {
		return a
	}
	if a.IsConst() {
		return tt.fpConst(s, fpVal(a))
	}
	return tt.mk("fp_to_fp", s, 0, 0, 0, "", a)
}

// ---- printing

func (t *Term) ref() string {
	switch t.Op {
	case "const":
		switch t.S.K {
		case SBool:
			if t.V == 1 {
				return "true"
			}
			return "false"
		case SBV:
			if t.S.W%4 == 0 {
				return fmt.Sprintf("#x%0*x", t.S.W/4, t.V)
			}
			return fmt.Sprintf("#b%0*b", t.S.W, t.V)
		case SFP:
			if t.S.W == 64 {
				return fmt.Sprintf("(fp #b%b #b%011b #b%052b)", t.V>>63, (t.V>>52)&0x7ff, t.V&((1<<52)-1))
			}
			return fmt.Sprintf("(fp #b%b #b%08b #b%023b)", (t.V>>31)&1, (t.V>>23)&0xff, t.V&((1<<23)-1))
		}
	case "var":
		return t.Name
	}
	return fmt.Sprintf("t%d", t.id)
}

// body returns the SMT-LIB expression defining t in terms of refs of its arguments.
func (t *Term) body() string {
	a := func(i int) string { return t.Args[i].ref() }
	switch t.Op {
	case "extract":
		return fmt.Sprintf("((_ extract %d %d) %s)", t.P1, t.P2, a(0))
	case "zero_extend", "sign_extend":
		return fmt.Sprintf("((_ %s %d) %s)", t.Op, t.P1, a(0))
	case "fp.add", "fp.sub", "fp.mul", "fp.div":
		return fmt.Sprintf("(%s RNE %s %s)", t.Op, a(0), a(1))
	case "fp_from_bits":
		if t.S.W == 64 {
			return fmt.Sprintf("((_ to_fp 11 53) %s)", a(0))
		}
		return fmt.Sprintf("((_ to_fp 8 24) %s)", a(0))
	case "to_fp_s", "fp_to_fp":
		if t.S.W == 64 {
			return fmt.Sprintf("((_ to_fp 11 53) RNE %s)", a(0))
		}
		return fmt.Sprintf("((_ to_fp 8 24) RNE %s)", a(0))
	case "to_fp_u":
		if t.S.W == 64 {
			return fmt.Sprintf("((_ to_fp_unsigned 11 53) RNE %s)", a(0))
		}
		return fmt.Sprintf("((_ to_fp_unsigned 8 24) RNE %s)", a(0))
	case "fp_to_sbv":
		return fmt.Sprintf("((_ fp.to_sbv %d) RTZ %s)", t.S.W, a(0))
	case "fp_to_ubv":
		return fmt.Sprintf("((_ fp.to_ubv %d) RTZ %s)", t.S.W, a(0))
	}
	var sb strings.Builder
	sb.WriteByte('(')
	sb.WriteString(t.Op)
	for i := range t.Args {
		sb.WriteByte(' ')
		sb.WriteString(a(i))
	}
	sb.WriteByte(')')
	return sb.String()
}

func (t *Term) String() string {
	if t.Op == "const" || t.Op == "var" {
		return t.ref()
	}
	return t.strDepth(4)
}

func (t *Term) strDepth(d int) string {
	if t.Op == "const" || t.Op == "var" {
		return t.ref()
	}
	if d == 0 {
		return t.ref()
	}
	var sb strings.Builder
	sb.WriteByte('(')
	sb.WriteString(t.Op)
	if t.Op == "extract" {
		fmt.Fprintf(&sb, "[%d:%d]", t.P1, t.P2)
	}
	for _, a := range t.Args {
		sb.WriteByte(' ')
		sb.WriteString(a.strDepth(d - 1))
	}
	sb.WriteByte(')')
	return sb.String()
}

// Eval evaluates t under an assignment of variables (by name) to bit
// patterns. Only the operations without FP arithmetic rounding subtleties are
// supported natively; ok=false if the term cannot be evaluated.
func (t *Term) Eval(env map[string]uint64, memo map[*Term]uint64) (uint64, bool) {
	if v, ok := memo[t]; ok {
		return v, true
	}
	var args [3]uint64
	for i, a := range t.Args {
		v, ok := a.Eval(env, memo)
		if !ok {
			return 0, false
		}
		args[i] = v
	}
	b2u := func(b bool) uint64 {
		if b {
			return 1
		}
		return 0
	}
	var r uint64
	w := t.S.W
	switch t.Op {
	case "const":
		r = t.V
	case "var":
		v, ok := env[t.Name]
		if !ok {
			return 0, false
		}
		r = v
	case "not":
		r = 1 - args[0]
	case "and":
		r = args[0] & args[1]
	case "or":
		r = args[0] | args[1]
	case "ite":
		if args[0] == 1 {
			r = args[1]
		} else {
			r = args[2]
		}
	case "=":
		if t.Args[0].S.K == SFP {
			a := &Term{S: t.Args[0].S, V: args[0]}
			b := &Term{S: t.Args[0].S, V: args[1]}
			r = b2u(args[0] == args[1] || (isNaNBits(a) && isNaNBits(b)))
		} else {
			r = b2u(args[0] == args[1])
		}
	case "bvult":
		r = b2u(args[0] < args[1])
	case "bvule":
		r = b2u(args[0] <= args[1])
	case "bvslt":
		r = b2u(sext(args[0], t.Args[0].S.W) < sext(args[1], t.Args[0].S.W))
	case "bvsle":
		r = b2u(sext(args[0], t.Args[0].S.W) <= sext(args[1], t.Args[0].S.W))
	case "bvnot":
		r = ^args[0] & mask(w)
	case "bvneg":
		r = -args[0] & mask(w)
	case "extract":
		r = (args[0] >> uint(t.P2)) & mask(w)
	case "zero_extend":
		r = args[0]
	case "sign_extend":
		r = uint64(sext(args[0], t.Args[0].S.W)) & mask(w)
	case "concat":
		if w > 64 {
			return 0, false
		}
		r = args[0]<<uint(t.Args[1].S.W) | args[1]
	case "fp_from_bits":
		r = args[0]
	case "fp.lt", "fp.leq", "fp.eq":
		x := fpVal(&Term{S: t.Args[0].S, V: args[0]})
		y := fpVal(&Term{S: t.Args[0].S, V: args[1]})
		switch t.Op {
		case "fp.lt":
			r = b2u(x < y)
		case "fp.leq":
			r = b2u(x <= y)
		default:
			r = b2u(x == y)
		}
	case "fp.isNaN":
		r = b2u(isNaNBits(&Term{S: t.Args[0].S, V: args[0]}))
	case "fp.isInfinite":
		r = b2u(math.IsInf(fpVal(&Term{S: t.Args[0].S, V: args[0]}), 0))
	default:
		if v, ok := (&TermTable{}).bvConstFold(t.Op, w, args[0], args[1]); ok && strings.HasPrefix(t.Op, "bv") {
			r = v
		} else {
			return 0, false
		}
	}
	memo[t] = r
	return r, true
}

var _ = bits.Len

// addNormal puts a sum into a canonical form (operands flattened, sorted by
// term id, constants folded, rebuilt left-associated) so that sums that are
// equal up to associativity and commutativity become the same term.
func (tt *TermTable) addNormal(a, b *Term) *Term {
	var leaves []*Term
	var flat func(t *Term) bool
	flat = func(t *Term) bool {
		if t.Op == "bvadd" {
			return flat(t.Args[0]) && flat(t.Args[1])
		}
		leaves = append(leaves, t)
		return len(leaves) <= 32
	}
	if !flat(a) || !flat(b) {
		return nil
	}
	w := a.S.W
	var c uint64
	var vars []*Term
	for _, l := range leaves {
		if l.IsConst() {
			c += l.V
		} else {
			vars = append(vars, l)
		}
	}
	// insertion sort by id
	for i := 1; i < len(vars); i++ {
		for j := i; j > 0 && vars[j-1].id > vars[j].id; j-- {
			vars[j-1], vars[j] = vars[j], vars[j-1]
		}
	}
	var res *Term
	for _, v := range vars {
		if res == nil {
			res = v
		} else {
			res = tt.mk("bvadd", v.S, 0, 0, 0, "", res, v)
		}
	}
	c &= mask(w)
	if res == nil {
		return tt.BV(c, w)
	}
	if c != 0 {
		res = tt.mk("bvadd", res.S, 0, 0, 0, "", res, tt.BV(c, w))
	}
	return res
}

// fpIntCmp rewrites a comparison between float64(x) for a signed integer x and
// a finite constant c with |c| <= 2^52 into an integer comparison. Sound
// because int->float conversion (RNE) is monotone and every integer of
// magnitude <= 2^53 is represented exactly:
//
//	float(x) <  c  <=>  x <  ceil(c)      float(x) <= c  <=>  x <= floor(c)
//	c <  float(x)  <=>  x >  floor(c)     c <= float(x)  <=>  x >= ceil(c)
//	float(x) == c  <=>  c integral and x == c
func (tt *TermTable) fpIntCmp(op string, a, b *Term) *Term {
	var x *Term
	var c float64
	left := false // true: the conversion is the left operand
	switch {
	case a.Op == "to_fp_s" && b.IsConst() && a.S.W == 64:
		x, c, left = a.Args[0], fpVal(b), true
	case b.Op == "to_fp_s" && a.IsConst() && b.S.W == 64:
		x, c = b.Args[0], fpVal(a)
	default:
		return nil
	}
	if math.IsNaN(c) || math.Abs(c) > (1<<52) || x.S.W < 54 {
		return nil
	}
	w := x.S.W
	fl, ce := math.Floor(c), math.Ceil(c)
	k := func(f float64) *Term { return tt.BV(uint64(int64(f)), w) }
	switch op {
	case "fp.lt":
		if left {
			return tt.BVCmp("bvslt", x, k(ce))
		}
		return tt.BVCmp("bvslt", k(fl), x)
	case "fp.leq":
		if left {
			return tt.BVCmp("bvsle", x, k(fl))
		}
		return tt.BVCmp("bvsle", k(ce), x)
	case "fp.eq":
		if fl != c {
			return tt.Bool(false)
		}
		return tt.Eq(x, k(c))
	}
	return nil
}
