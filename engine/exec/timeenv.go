package exec

// Virtual clock and timers.

import (
	"fmt"
	"go/token"
	"go/types"
)

const (
	hasMonotonic = uint64(1) << 63
	// wall seconds field of every time.Now(): 2026-01-01 relative to 1885
	wallSeconds = uint64(4449513600)
)

// clockNow returns the monotonic clock reading in ns (int64 or term) and
// advances it.
func (m *Machine) clockNow() value {
	if m.ps == nil {
		return int64(1)
	}
	if m.clockSymbolic {
		// fresh non-negative step, bounded so that sums cannot overflow
		d := m.freshVar("clock", bvSort(64)) // recorded as kind "clock": skipped by native replay (real time there)
		tt := m.tt
		m.Assume(tt.And(tt.BVCmp("bvsle", tt.BV(0, 64), d), tt.BVCmp("bvsle", d, tt.BV(1<<40, 64))))
		cur := m.toTerm(m.clockVal())
		n := fromTerm(tt.BVBin("bvadd", cur, d), types.Typ[types.Int64])
		m.setClock(n)
		return n
	}
	if t, ok := m.clockVal().(*Term); ok {
		// the clock was symbolic earlier on this path: advance it by 1 ns
		n := fromTerm(m.tt.BVBin("bvadd", t, m.tt.BV(1, 64)), types.Typ[types.Int64])
		m.setClock(n)
		return n
	}
	c := asInt64(m.clockVal()) + 1
	m.setClock(c)
	return c
}

func (m *Machine) clockVal() value {
	if m.clock == nil {
		return int64(1000)
	}
	return m.clock
}

func (m *Machine) setClock(v value) {
	old := m.clock
	m.logUndo(func() { m.clock = old })
	m.clock = v
}

func (m *Machine) timeType() types.Type {
	p := m.prog.ImportedPackage("time")
	if p == nil {
		unsupported("time package not loaded")
	}
	return p.Type("Time").Type()
}

// mkTime builds a time.Time with a monotonic reading.
func (m *Machine) mkTime(mono value) value {
	tt := m.timeType()
	s := zero(tt).(structure)
	s[fieldIndex(tt, "wall")] = hasMonotonic | wallSeconds<<30
	s[fieldIndex(tt, "ext")] = mono
	return s
}

func (m *Machine) timeNowValue() value { return m.mkTime(m.clockNow()) }

func extTimeNow(fr *frame, a []value) value { return fr.i.timeNowValue() }

func (m *Machine) timeExt(t value) value {
	s := t.(structure)
	tt := m.timeType()
	if w, ok := s[fieldIndex(tt, "wall")].(uint64); !ok || w&hasMonotonic == 0 {
		unsupported("time.Since/Until of a time without monotonic reading")
	}
	return s[fieldIndex(tt, "ext")]
}

func extTimeSince(fr *frame, a []value) value {
	m := fr.i
	now := m.clockNow()
	t := types.Typ[types.Int64]
	return m.binop(token.SUB, t, now, m.timeExt(a[0]), t)
}

func extTimeUntil(fr *frame, a []value) value {
	m := fr.i
	now := m.clockNow()
	t := types.Typ[types.Int64]
	return m.binop(token.SUB, t, m.timeExt(a[0]), now, t)
}

func extTimeSleep(fr *frame, a []value) value {
	m := fr.i
	m.schedPoint("time.Sleep")
	if d, ok := a[0].(int64); ok && !m.clockSymbolic && d > 0 {
		m.setClock(asInt64(m.clockVal()) + d)
	}
	return nil
}

func (m *Machine) newVTimer(obj *value, periodic bool) *vtimer {
	s := m.sched
	if s == nil || m.ps == nil {
		unsupported("timer created outside a scheduled path")
	}
	t := &vtimer{active: true, periodic: periodic, obj: obj, id: len(s.timers)}
	s.timers = append(s.timers, t)
	return t
}

func (m *Machine) findTimer(obj *value) *vtimer {
	if m.sched == nil {
		return nil
	}
	for _, t := range m.sched.timers {
		if t.obj == obj {
			return t
		}
	}
	return nil
}

func (m *Machine) mkTimerObj(typeName string, periodic bool) value {
	tp := m.prog.ImportedPackage("time").Type(typeName).Type()
	obj := new(value)
	*obj = zero(tp)
	vt := m.newVTimer(obj, periodic)
	vt.ch = m.newChan(1, m.timeType())
	(*obj).(structure)[fieldIndex(tp, "C")] = vt.ch
	return obj
}

func extNewTimer(fr *frame, a []value) value {
	obj := fr.i.mkTimerObj("Timer", false)
	fr.i.arm(fr.i.findTimer(obj.(*value)), a[0])
	return obj
}

// arm records the duration a timer was armed with and the (concrete) clock
// reading at that instant, so that its firing can move the virtual clock to the
// instant it was set for
func (m *Machine) arm(vt *vtimer, d value) {
	vt.dur = concDur(d)
	vt.armedAt = -1
	if c, ok := m.clockVal().(int64); ok && !m.clockSymbolic {
		vt.armedAt = c
	}
}

func concDur(v value) int64 {
	if d, ok := v.(int64); ok {
		return d
	}
	return 0
}
func extNewTicker(fr *frame, a []value) value {
	if d, ok := a[0].(int64); ok && d <= 0 {
		panic(targetPanic{iface{types.Typ[types.String], "non-positive interval for NewTicker"}})
	}
	obj := fr.i.mkTimerObj("Ticker", true)
	fr.i.arm(fr.i.findTimer(obj.(*value)), a[0])
	return obj
}

func extTimeAfter(fr *frame, a []value) value {
	m := fr.i
	obj := m.mkTimerObj("Timer", false).(*value)
	m.arm(m.findTimer(obj), a[0])
	return m.findTimer(obj).ch
}

func extAfterFunc(fr *frame, a []value) value {
	m := fr.i
	tp := m.prog.ImportedPackage("time").Type("Timer").Type()
	obj := new(value)
	*obj = zero(tp)
	vt := m.newVTimer(obj, false)
	vt.fn = a[1]
	m.arm(vt, a[0])
	return obj
}

// Stop / Reset: Go >= 1.23 semantics (asynctimerchan=0): after Stop or Reset
// returns no stale value is left in the channel.
func extTimerStop(fr *frame, a []value) value {
	m := fr.i
	obj := nilCheck(a[0])
	m.schedPoint("Timer.Stop")
	vt := m.findTimer(obj)
	if vt == nil {
		panic(targetPanic{iface{types.Typ[types.String], "time: Stop called on uninitialized Timer"}})
	}
	was := vt.active
	vt.active = false
	if vt.ch != nil && !m.asyncTimerChan {
		vt.ch.buf = nil
	}
	if fr.fn.Signature.Results().Len() == 0 {
		return nil
	}
	return was
}

func extTimerReset(fr *frame, a []value) value {
	m := fr.i
	obj := nilCheck(a[0])
	m.schedPoint("Timer.Reset")
	vt := m.findTimer(obj)
	if vt == nil {
		panic(targetPanic{iface{types.Typ[types.String], "time: Reset called on uninitialized Timer"}})
	}
	was := vt.active
	vt.active = true
	if len(a) > 1 {
		m.arm(vt, a[1])
	}
	if vt.ch != nil && !m.asyncTimerChan {
		vt.ch.buf = nil
	}
	if fr.fn.Signature.Results().Len() == 0 {
		return nil
	}
	return was
}

var _ = fmt.Sprint
