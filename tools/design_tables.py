#!/usr/bin/env python3
# tools/design_tables.py: print the markdown tables of DESIGN.md sections 0.5 and 0.7 from seeded/*/meta.json and evidence/*.json
import json,glob,os
print('| Seeded change | Breaks (author\'s summary, shortened) | Caught by `./check <id> quick` | Assertion(s) that fire |')
print('|---|---|---|---|')
for d in sorted(glob.glob('/verif/seeded/*/')):
    m=json.load(open(d+'meta.json')); key=os.path.basename(d.rstrip('/'))
    if os.path.exists(d+'patch.original.diff'): key+=' †'
    cb=m.get('caught_by',{})
    what=m['breaks'].replace('|','/').replace('\n',' ')
    what=what[:230]+('…' if len(what)>230 else '')
    labs=', '.join(sorted({v.split('/')[-1] for v in cb.get('violations',[])}))[:200]
    print('| %s | %s | %s (%ss) | %s |'%(key,what,'yes, exit 1' if cb.get('caught') else 'NO',cb.get('seconds','?'),labs))
print()
print('| id | harnesses | paths | decisions | solver queries (sat / unsat / unknown) | verdict queries | native validations | wall |')
print('|---|---|---|---|---|---|---|---|')
for p in sorted(glob.glob('/verif/evidence/C*.json')):
    e=json.load(open(p)); c=e['coverage']; hs=c['harnesses']
    print('| %s | %d | %d | %d | %d / %d / %d | %d | %d | %.0f s |'%(e['property_id'],len(hs),c['states'],c['transitions'],
        sum(h['queries_sat'] for h in hs),sum(h['queries_unsat'] for h in hs),sum(h['queries_unknown'] for h in hs),
        sum(h['verdict_queries'] for h in hs),c['traces_validated_against_impl'],e['wall_s']))
