#!/usr/bin/env python3
# tools/design_asbuilt.py: (re)generate the "As built" block under each "### Cxx —" heading of DESIGN.md from harness/Cxx/spec.json,
# and the tables of sections 0.5 / 0.7 (between markers)
import json,re,subprocess
p='/verif/DESIGN.md'
s=open(p).read()
for i in range(1,21):
    pid='C%02d'%i
    sp=json.load(open('/verif/harness/%s/spec.json'%pid))
    lines=['<!-- asbuilt:%s -->'%pid,'*As built* (generated from `harness/%s/spec.json`; Q/T = quick / thorough where they differ):'%pid,'']
    for u in sp['units']:
        hs=[]
        for h in u['harnesses']:
            tag=h['entry']
            fl=[]
            if h.get('concurrent'): fl.append('conc')
            if h.get('demonstrates'): fl.append('demonstrates known finding')
            if h.get('engine_confirm'): fl.append('engine-confirmed')
            if h.get('quick',{}).get('skip'): fl.append('thorough only')
            if fl: tag+=' ('+', '.join(fl)+')'
            hs.append('`'+tag+'`')
        extra=[]
        if u.get('transforms'): extra.append('source transforms: '+'; '.join('%s `%s`→`%s`'%(t['file'],t['regex'],t['repl']+' (source literal must be '+str(t.get('literal'))+')') for t in u['transforms']))
        if u.get('redirects'): extra.append('redirects: '+', '.join('`%s`→`%s`'%kv for kv in u['redirects'].items()))
        if u.get('noops'): extra.append('no-ops: '+', '.join('`%s`'%n for n in u['noops']))
        lines.append('* unit `%s` (module `%s`, package `%s`): %s%s'%(u['name'],u['dir'],u['pkg'],', '.join(hs),('; '+'; '.join(extra)) if extra else ''))
    lines.append('')
    lines.append('Bounds: '+sp['bounds']+'.')
    if sp.get('assumptions'):
        lines.append('')
        lines.append('Assumptions, stubs and what is outside the claim: '+'; '.join(sp['assumptions'])+'.')
    lines.append('<!-- /asbuilt -->')
    block='\n'.join(lines)+'\n'
    pat=re.compile(r'<!-- asbuilt:%s -->.*?<!-- /asbuilt -->\n'%pid,re.S)
    if pat.search(s):
        s=pat.sub(lambda m:block,s)
    else:
        m=re.search(r'^### %s — .*\n'%pid,s,re.M)
        assert m,pid
        s=s[:m.end()]+'\n'+block+s[m.end():]
tables=subprocess.check_output(['python3','/verif/tools/design_tables.py'],text=True).split('\n\n')
def put(marker,content):
    global s
    pat=re.compile(r'<!-- %s -->.*?<!-- /%s -->\n'%(marker,marker),re.S)
    block='<!-- %s -->\n%s\n<!-- /%s -->\n'%(marker,content.strip(),marker)
    if pat.search(s): s=pat.sub(lambda m:block,s)
    else:
        assert marker in s, marker
        s=s.replace(marker+'\n',block,1)
put('SEEDED_TABLE',tables[0]); put('EVIDENCE_TABLE',tables[1])
open(p,'w').write(s)
print('ok')
