#!/usr/bin/env python3
# tools/manifest_add.py <id> <level text> <level note> : claim a property in MANIFEST.json
import json,sys
pid,text,note=sys.argv[1],sys.argv[2],sys.argv[3]
p='/verif/MANIFEST.json'
m=json.load(open(p))
m['checks']=[c for c in m['checks'] if c['property_id']!=pid]
m['checks'].append({"property_id":pid,"quick_cmd":"./check %s quick"%pid,"thorough_cmd":"./check %s thorough"%pid,
 "evidence_file":"/verif/evidence/%s.json"%pid,"replay_cmd_template":"./check replay {path}","engine":"gosym",
 "level_claimed":{"category":"model_checking","text":text,"design_ref":"DESIGN.md section 5, "+pid},
 "level_note":note,"technique":"SMT-backed bounded symbolic execution of the repository's go/ssa (z3), counterexamples replayed natively"})
m['checks'].sort(key=lambda c:c['property_id'])
m['not_applicable']=[n for n in m.get('not_applicable',[]) if n['property_id']!=pid]
e=m['engines'][0]
if pid not in e['serves_properties']:
    e['serves_properties'].append(pid); e['serves_properties'].sort()
json.dump(m,open(p,'w'),indent=1)
print("claimed",pid)
