#!/bin/sh
# tools/run_all.sh [tier] [ids...]: run every claimed check on the current tree, summarise
TIER="${1:-quick}"; shift 2>/dev/null
cd "$(dirname "$0")/.." || exit 2
IDS="$*"
[ -n "$IDS" ] || IDS=$(python3 -c "import json;print(' '.join(c['property_id'] for c in json.load(open('MANIFEST.json'))['checks']))")
mkdir -p /tmp/run_all
for id in $IDS; do
  s=$(date +%s)
  timeout ${CAP:-36000} ./check $id $TIER > /tmp/run_all/$TIER.$id.log 2>&1; rc=$?
  e=$(date +%s)
  echo "$id exit=$rc $((e-s))s $(grep -c '^VIOLATION' /tmp/run_all/$TIER.$id.log) violations; $(grep '^RESULT' /tmp/run_all/$TIER.$id.log | cut -c1-160)"
done
