#!/bin/sh
# tools/run_all.sh [tier]: run every claimed check on the current tree, summarise
TIER="${1:-quick}"
cd /verif || exit 2
for id in $(python3 -c "import json;print(' '.join(c['property_id'] for c in json.load(open('MANIFEST.json'))['checks']))"); do
  s=$(date +%s)
  ./check $id $TIER > /tmp/run_all.$id.log 2>&1; rc=$?
  e=$(date +%s)
  echo "$id exit=$rc $((e-s))s $(grep -c '^VIOLATION' /tmp/run_all.$id.log) violations; $(grep '^RESULT' /tmp/run_all.$id.log | cut -c1-160)"
done
