#!/usr/bin/env python3
# tools/confirm_seed.py <seed-out-dir> [ids...]: independently confirm seeded changes in a scratch
# worktree of /repo (HEAD): the patch applies, the touched modules build, their existing tests pass,
# the demonstration fails with the patch and passes without it. Confirmed ones are stored under
# /verif/seeded/<id>-<variant>/ (patch.diff, demonstration, meta.json).
import json, os, subprocess, sys, shutil, re, time
OUT=sys.argv[1]; only=set(sys.argv[2:])
SW='/tmp/sw_confirm'
ENV=dict(os.environ, GOFLAGS='-mod=mod', GOPROXY='off', GOSUMDB='off', GOTOOLCHAIN='local')
def sh(cmd, cwd=None, timeout=3000):
    p=subprocess.run(cmd, shell=True, cwd=cwd, env=ENV, stdout=subprocess.PIPE, stderr=subprocess.STDOUT, text=True, timeout=timeout)
    return p.returncode, p.stdout
def moddir(path):
    d=os.path.dirname(path)
    while True:
        if os.path.exists(os.path.join(SW,d,'go.mod')): return d or '.'
        if d in ('','.'): return '.'
        d=os.path.dirname(d)
head=sh('git -C /repo rev-parse HEAD')[1].strip()
sh('git -C /repo worktree remove --force '+SW); shutil.rmtree(SW, ignore_errors=True)
rc,o=sh('git -C /repo worktree add --detach %s HEAD'%SW); assert rc==0,o
results={}
try:
  for pid in sorted(os.listdir(OUT)):
    for var in sorted(os.listdir(os.path.join(OUT,pid))):
        key='%s-%s'%(pid,var)
        if only and key not in only and pid not in only: continue
        d=os.path.join(OUT,pid,var)
        meta=json.load(open(os.path.join(d,'meta.json')))
        patch=os.path.join(d,'patch.adapted.diff')
        adapted=os.path.exists(patch)
        if not adapted: patch=os.path.join(d,'patch.diff')
        sh('git checkout -q -- . && git clean -fdq', cwd=SW)
        res={'base_commit':head,'patch_adapted_to_current_tree':adapted}
        rc,o=sh('git apply --check %s && git apply %s'%(patch,patch), cwd=SW)
        if rc!=0:
            res['status']='patch does not apply: '+o[-300:]; results[key]=res; print(key,res['status'],flush=True); continue
        files=[l[6:] for l in open(patch) if l.startswith('+++ b/')]
        mods=sorted({moddir(f) for f in files})
        ok=True; ran=[]
        for m in mods:
            t0=time.time()
            rc,o=sh('go build ./... && go test -vet=off -count=1 -timeout 25m ./...', cwd=os.path.join(SW,m))
            ran.append('(cd %s && go build ./... && go test -vet=off -count=1 ./...) -> %s in %ds'%(m,'ok' if rc==0 else 'FAIL',time.time()-t0))
            if rc!=0:
                ok=False; res['test_output_tail']=o[-1500:]
        res['existing_tests']=ran
        demo=[f for f in os.listdir(d) if f.endswith('_test.go')][0]
        dst=os.path.join(SW,meta['demo_path'])
        shutil.copy(os.path.join(d,demo),dst)
        cmd=re.sub(r'GOFLAGS=[^\s;]+|GOPROXY=[^\s;]+|GOSUMDB=[^\s;]+|GOTOOLCHAIN=[^\s;]+','',meta['demo_cmd'])
        cmd=re.sub(r'^\s*export\s*;','',cmd)
        cmd=re.sub(r'/tmp/seed/%s(?=[/\s]|$)'%pid, SW, cmd)
        assert '/tmp/seed' not in cmd, cmd
        rc1,o1=sh(cmd+' -vet=off' if False else cmd, cwd=SW)
        # a demonstration may be timing dependent: accept a failure in any of 3 runs with the patch
        tries=1
        while rc1==0 and tries<3:
            rc1,o1=sh(cmd,cwd=SW); tries+=1
        res['demo_with_patch']='FAIL' if rc1!=0 else 'PASS'
        if rc1!=0 and ('build failed' in o1 or 'cannot' in o1 and 'FAIL' not in o1): res['demo_with_patch_note']=o1[-500:]
        sh('git apply -R %s'%patch, cwd=SW)
        rc2,o2=sh(cmd,cwd=SW)
        res['demo_without_patch']='PASS' if rc2==0 else 'FAIL'
        if rc2!=0: res['demo_without_patch_tail']=o2[-800:]
        os.remove(dst)
        res['status']='confirmed' if ok and rc1!=0 and rc2==0 else 'not confirmed'
        results[key]=res
        print(key,res['status'],res.get('existing_tests'),res['demo_with_patch'],res['demo_without_patch'],flush=True)
        if res['status']=='confirmed':
            sd='/verif/seeded/%s'%key
            os.makedirs(sd,exist_ok=True)
            shutil.copy(patch,os.path.join(sd,'patch.diff'))
            if adapted: shutil.copy(os.path.join(d,'patch.diff'),os.path.join(sd,'patch.original.diff'))
            shutil.copy(os.path.join(d,demo),os.path.join(sd,demo))
            m2={'property':meta['property'],'breaks':meta['summary'],'needs_to_manifest':meta['needs'],'demo_path':meta['demo_path'],'demo_cmd':cmd.strip(),
                'author_reported_tests':meta.get('tests_run',''),'confirmed':res}
            old=os.path.join(sd,'meta.json')
            if os.path.exists(old):
                o=json.load(open(old))
                if 'caught_by' in o: m2['caught_by']=o['caught_by']
            json.dump(m2,open(old,'w'),indent=1)
finally:
    sh('git -C /repo worktree remove --force '+SW); shutil.rmtree(SW, ignore_errors=True)
    json.dump(results,open('/tmp/seed/confirm_results.json','w'),indent=1)
