#!/bin/sh
# tools/try_seed.sh <seed-key> <property-id> [harness[,harness]]: run a check against a seeded change in the scratch worktree ${MX:-/tmp/mx2}
K="$1"; ID="$2"; H="${3:-}"
cd /verif || exit 2
git -C /repo worktree list | grep -q ${MX:-/tmp/mx2} || git -C /repo worktree add --detach ${MX:-/tmp/mx2} HEAD >/dev/null 2>&1
git -C ${MX:-/tmp/mx2} checkout -q -- . ; git -C ${MX:-/tmp/mx2} clean -fdq
git -C ${MX:-/tmp/mx2} apply /verif/seeded/$K/patch.diff || exit 3
GOSYM_ONLY="$H" VERIF_REPO=${MX:-/tmp/mx2} timeout ${CAP:-900} ./check $ID ${TIER:-quick} 2>&1 | grep -E "^(VIOLATION|RESULT|INCONCLUSIVE|UNCONFIRMED|  harness=)" | cut -c1-240 | head -8
git -C ${MX:-/tmp/mx2} checkout -q -- . ; git -C ${MX:-/tmp/mx2} clean -fdq
