#!/usr/bin/env python3
# tools/try_bounds.py <id> <entry> '<json tier bounds>' : run one harness at ad-hoc thorough bounds (spec restored afterwards)
import json,sys,subprocess,shutil,os,signal
signal.signal(signal.SIGTERM, lambda *a: sys.exit(143))
pid,entry,b=sys.argv[1],sys.argv[2],json.loads(sys.argv[3])
p='/verif/harness/%s/spec.json'%pid
bak=p+'.bak'; shutil.copy(p,bak)
try:
    sp=json.load(open(p))
    for u in sp['units']:
        for h in u['harnesses']:
            if h['entry']==entry: h['thorough']=b
    json.dump(sp,open(p,'w'),indent=1)
    env=dict(os.environ,GOSYM_ONLY=entry,GOSYM_VERBOSE='1')
    o=subprocess.run('cd /verif && ./check %s thorough'%pid,shell=True,env=env,stdout=subprocess.PIPE,stderr=subprocess.STDOUT,text=True).stdout
    for l in o.splitlines():
        if l.startswith(('harness ','RESULT','INCONCLUSIVE','VIOLATION','UNCONFIRMED')): print(l[:400])
finally:
    shutil.move(bak,p)
