#!/usr/bin/env python3
# tools/seeded_matrix.py [tier] [keys...]: run the registered check of each seeded change's property
# with the change applied to /repo (undone straight afterwards) and record the outcome in
# seeded/<key>/meta.json under "caught_by".
import json, os, subprocess, sys, re, time
tier=sys.argv[1] if len(sys.argv)>1 else 'quick'
only=set(sys.argv[2:])
def sh(cmd, cwd=None):
    p=subprocess.run(cmd, shell=True, cwd=cwd, stdout=subprocess.PIPE, stderr=subprocess.STDOUT, text=True)
    return p.returncode, p.stdout
assert sh('git -C /repo status --porcelain')[1].strip()=='', '/repo not clean'
rows=[]
for key in sorted(os.listdir('/verif/seeded')):
    if only and key not in only: continue
    d='/verif/seeded/'+key
    if not os.path.isdir(d): continue
    meta=json.load(open(d+'/meta.json'))
    pid=meta['property']
    rc,o=sh('git -C /repo apply %s/patch.diff'%d)
    if rc!=0:
        print(key,'patch does not apply',o); continue
    try:
        t0=time.time()
        rc,o=sh('cd /verif && ./check %s %s'%(pid,tier))
        dt=time.time()-t0
    finally:
        sh('git -C /repo checkout -- . && git -C /repo clean -fdq')
    labels=sorted(set(re.findall(r'^  harness=(\S+) label=(\S+) kind=',o,re.M)))
    meta['caught_by']={'command':'./check %s %s'%(pid,tier),'exit':rc,'seconds':round(dt),'violations':['%s/%s'%l for l in labels][:8],'caught':rc==1}
    json.dump(meta,open(d+'/meta.json','w'),indent=1)
    print(key,'exit=%d'%rc,'%ds'%dt,[l[1] for l in labels][:3],flush=True)
assert sh('git -C /repo status --porcelain')[1].strip()=='', '/repo not clean at end'
