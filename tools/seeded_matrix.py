#!/usr/bin/env python3
# tools/seeded_matrix.py [tier] [keys...]: run the registered check of each seeded change's property
# with the change applied to /repo (undone straight afterwards) and record the outcome in
# seeded/<key>/meta.json under "caught_by".
import json, os, subprocess, sys, re, time
tier=sys.argv[1] if len(sys.argv)>1 else 'quick'
only=set(sys.argv[2:])
def sh(cmd, cwd=None):
    p=subprocess.run(cmd, shell=True, cwd=cwd, stdout=subprocess.PIPE, stderr=subprocess.STDOUT, text=True)
    return p.returncode, p.stdout
# MATRIX_REPO=<dir>: work in a scratch worktree of /repo's HEAD at <dir> (checks run with VERIF_REPO=<dir>)
# instead of applying the change to /repo itself, so that /repo stays free for other runs meanwhile
REPO=os.environ.get('MATRIX_REPO','/repo')
if REPO!='/repo':
    sh('git -C /repo worktree remove --force '+REPO)
    rc,o=sh('git -C /repo worktree add --detach %s HEAD'%REPO); assert rc==0,o
assert sh('git -C %s status --porcelain'%REPO)[1].strip()=='', REPO+' not clean'
rows=[]
for key in sorted(os.listdir('/verif/seeded')):
    if only and key not in only: continue
    d='/verif/seeded/'+key
    if not os.path.isdir(d): continue
    meta=json.load(open(d+'/meta.json'))
    pid=meta['property']
    rc,o=sh('git -C %s apply %s/patch.diff'%(REPO,d))
    if rc!=0:
        print(key,'patch does not apply',o); continue
    try:
        t0=time.time()
        rc,o=sh('cd /verif && VERIF_REPO=%s ./check %s %s'%(REPO,pid,tier))
        dt=time.time()-t0
    finally:
        sh('git -C %s checkout -- . && git -C %s clean -fdq'%(REPO,REPO))
    labels=sorted(set(re.findall(r'^  harness=(\S+) label=(\S+) kind=',o,re.M)))
    meta['caught_by']={'command':'./check %s %s'%(pid,tier),'exit':rc,'seconds':round(dt),'violations':['%s/%s'%l for l in labels][:8],'caught':rc==1}
    json.dump(meta,open(d+'/meta.json','w'),indent=1)
    print(key,'exit=%d'%rc,'%ds'%dt,[l[1] for l in labels][:3],flush=True)
assert sh('git -C %s status --porcelain'%REPO)[1].strip()=='', REPO+' not clean at end'
if REPO!='/repo':
    sh('git -C /repo worktree remove --force '+REPO)
