#!/usr/bin/env python3
# tools/manifest_sync.py: level_note of every claimed check = pointer to the bounds + the assumptions of harness/<id>/spec.json
import json
p='/verif/MANIFEST.json'
m=json.load(open(p))
for c in m['checks']:
    s=json.load(open('/verif/harness/%s/spec.json'%c['property_id']))
    c['level_note']='bounds in harness/%s/spec.json, repeated in the evidence and in DESIGN.md section 5; '%c['property_id']+'; '.join(s.get('assumptions',[]))
json.dump(m,open(p,'w'),indent=1)
print('ok')
