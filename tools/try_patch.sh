#!/bin/sh
# tools/try_patch.sh <patch.diff> <property-id> [tier]: apply a seeded change to /repo, run the check, undo it.
P="$1"; ID="$2"; TIER="${3:-quick}"
cd /repo || exit 2
if ! git apply --check "$P" 2>/dev/null; then echo "PATCH-DOES-NOT-APPLY $P"; exit 3; fi
git apply "$P"
cd /verif && ./check "$ID" "$TIER" > /tmp/try_patch.$$.log 2>&1; RC=$?
git -C /repo checkout -- . 
grep -E "^(VIOLATION|KNOWN-FINDING|RESULT|INCONCLUSIVE|UNCONFIRMED|  harness=)" /tmp/try_patch.$$.log | cut -c1-300 | head -12
rm -f /tmp/try_patch.$$.log
echo "exit=$RC"
exit $RC
