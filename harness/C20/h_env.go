package env

import "strconv"

// reference: the first non-empty variable decides; unparsable => default
func c20Ref(def int, vals ...string) int {
	for _, v := range vals {
		if v == "" {
			continue
		}
		n, err := strconv.Atoi(v)
		if err != nil {
			return def
		}
		return n
	}
	return def
}

// C20.sdkints: specific variable > generic variable > default, bad => default
func HarnessC20EnvInts() {
	n := vndParam("N", 2)
	spec, gen := vndString(n), vndString(n)
	if spec == "" {
		vndUnsetEnv(SpanAttributeCountKey)
	} else {
		vndSetEnv(SpanAttributeCountKey, spec)
	}
	if gen == "" {
		vndUnsetEnv(AttributeCountKey)
	} else {
		vndSetEnv(AttributeCountKey, gen)
	}
	def := 128
	got := SpanAttributeCount(def)
	want := c20Ref(def, spec, gen)
	vndReach("resolved")
	vndAssert(got == want, "specific-variable-over-generic-variable-over-default-unparsable-gives-default")
	// a single-key reader
	got2 := BatchSpanProcessorMaxQueueSize(2048)
	_ = got2
}

func HarnessC20EnvSingle() {
	v := vndString(vndParam("N", 3))
	if v == "" {
		vndUnsetEnv(BatchSpanProcessorMaxQueueSizeKey)
	} else {
		vndSetEnv(BatchSpanProcessorMaxQueueSizeKey, v)
	}
	got := BatchSpanProcessorMaxQueueSize(2048)
	vndReach("resolved")
	vndAssert(got == c20Ref(2048, v), "environment-over-default-unparsable-gives-default")
}
