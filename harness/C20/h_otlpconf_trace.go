package otlpconfig

const (
	c20SigVar  = "TRACES"
	c20SigPath = "/v1/traces"
)

func c20Sig(c Config) SignalConfig { return c.Traces }
