package trace

import (
	"context"
)

type c20Exp struct{}

func (c20Exp) ExportSpans(context.Context, []ReadOnlySpan) error { return nil }
func (c20Exp) Shutdown(context.Context) error                    { return nil }

// C20.bsp: bad sizes from the environment or from options never crash the host
func HarnessC20BSPSizes() {
	for _, k := range []string{"OTEL_BSP_MAX_QUEUE_SIZE", "OTEL_BSP_MAX_EXPORT_BATCH_SIZE", "OTEL_BSP_SCHEDULE_DELAY", "OTEL_BSP_EXPORT_TIMEOUT"} {
		vndUnsetEnv(k)
	}
	vals := []string{"", "-1", "0", "3", "x", "9"}
	q, b := vals[vndChoice(len(vals))], vals[vndChoice(len(vals))]
	if q != "" {
		vndSetEnv("OTEL_BSP_MAX_QUEUE_SIZE", q)
	}
	if b != "" {
		vndSetEnv("OTEL_BSP_MAX_EXPORT_BATCH_SIZE", b)
	}
	var opts []BatchSpanProcessorOption
	optKind := vndChoice(5)
	ov := int(vndI64())
	switch optKind {
	case 1:
		opts = append(opts, WithMaxQueueSize(ov))
		vndReach("option-queue")
	case 2:
		opts = append(opts, WithMaxExportBatchSize(ov))
		vndReach("option-batch")
	case 3:
		opts = append(opts, WithMaxQueueSize(4), WithMaxExportBatchSize(2))
	case 4:
		// a batch size above the queue size, given explicitly: options win
		opts = append(opts, WithMaxQueueSize(2), WithMaxExportBatchSize(6))
	}
	if len(opts) == 1 {
		// arbitrary (also negative) but small enough to allocate
		o := BatchSpanProcessorOptions{}
		opts[0](&o)
		vndAssume(vndAnd(o.MaxQueueSize <= 8, o.MaxQueueSize >= -8))
		vndAssume(vndAnd(o.MaxExportBatchSize <= 8, o.MaxExportBatchSize >= -8))
	}
	sp := NewBatchSpanProcessor(c20Exp{}, opts...)
	bsp := sp.(*batchSpanProcessor)
	vndReach("constructed")
	// (no panic is the claim; a size of zero has no documented meaning and is not judged)
	vndAssert(cap(bsp.queue) >= 0 && cap(bsp.batch) >= 0, "processor-constructed")
	// option over environment over default: a positive value given as an option is the value used
	switch optKind {
	case 1:
		vndAssert(vndImplies(ov > 0, bsp.o.MaxQueueSize == ov), "option-over-environment")
	case 2:
		vndAssert(vndImplies(ov > 0, bsp.o.MaxExportBatchSize == ov), "option-over-environment")
	case 3:
		vndAssert(bsp.o.MaxQueueSize == 4 && bsp.o.MaxExportBatchSize == 2, "option-over-environment")
	case 4:
		vndAssert(bsp.o.MaxQueueSize == 2 && bsp.o.MaxExportBatchSize == 6, "option-over-environment")
	}
	sp.Shutdown(context.Background())
}

// span limits: option over environment over default
func HarnessC20SpanLimits() {
	for _, k := range []string{"OTEL_SPAN_ATTRIBUTE_COUNT_LIMIT", "OTEL_ATTRIBUTE_COUNT_LIMIT", "OTEL_SPAN_EVENT_COUNT_LIMIT"} {
		vndUnsetEnv(k)
	}
	d := vndStringN(1)
	set := vndChoice(3)
	switch set {
	case 1:
		vndSetEnv("OTEL_SPAN_ATTRIBUTE_COUNT_LIMIT", d)
	case 2:
		vndSetEnv("OTEL_ATTRIBUTE_COUNT_LIMIT", d)
	}
	sl := NewSpanLimits()
	digit := vndAnd(d[0] >= '0', d[0] <= '9')
	want := DefaultAttributeCountLimit
	vndReach("limits")
	if set != 0 {
		vndAssert(vndImplies(digit, sl.AttributeCountLimit == int(d[0]-'0')), "limit-from-environment")
		vndAssert(vndImplies(vndNot(digit), sl.AttributeCountLimit == want), "unparsable-limit-gives-default")
	} else {
		vndAssert(sl.AttributeCountLimit == want, "default-limit")
	}
	// the option wins over the environment
	p := &TracerProvider{}
	o := tracerProviderConfig{spanLimits: sl}
	o = WithRawSpanLimits(SpanLimits{AttributeCountLimit: 7}).apply(o)
	_ = p
	vndAssert(o.spanLimits.AttributeCountLimit == 7, "option-over-environment")
}

// sampler from the environment: documented sampler or documented error, never a panic
func HarnessC20Sampler() {
	names := []string{"", "always_on", "always_off", "traceidratio", "parentbased_always_on", "parentbased_always_off", "parentbased_traceidratio", "bogus"}
	args := []string{"", "0", "0.5", "1", "-1", "2", "x", "NaN"}
	vndUnsetEnv("OTEL_TRACES_SAMPLER")
	vndUnsetEnv("OTEL_TRACES_SAMPLER_ARG")
	n, a := names[vndChoice(len(names))], args[vndChoice(len(args))]
	if n != "" {
		vndSetEnv("OTEL_TRACES_SAMPLER", n)
	}
	if a != "" {
		vndSetEnv("OTEL_TRACES_SAMPLER_ARG", a)
	}
	if a == "NaN" && (n == "traceidratio" || n == "parentbased_traceidratio") {
		// float->uint64 of NaN is implementation-defined in Go: only "no panic" is claimed
		samplerFromEnv()
		return
	}
	s, err := samplerFromEnv()
	vndReach("sampler")
	switch n {
	case "":
		vndAssert(s == nil && err == nil, "no-sampler-variable-means-default")
	case "bogus":
		vndAssert(err != nil, "unknown-sampler-name-is-an-error")
	case "always_on", "always_off", "parentbased_always_on", "parentbased_always_off":
		vndAssert(err == nil && s != nil, "named-sampler-selected")
	default:
		vndAssert(s != nil, "ratio-sampler-always-yields-a-sampler")
		bad := a == "-1" || a == "2" || a == "x"
		vndAssert((err != nil) == bad, "out-of-range-or-unparsable-ratio-reported")
	}
}
