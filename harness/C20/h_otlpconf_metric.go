package oconf

const (
	c20SigVar  = "METRICS"
	c20SigPath = "/v1/metrics"
)

func c20Sig(c Config) SignalConfig { return c.Metrics }
