package PKGNAME

import (
	"time"
)

// OTLP trace / metric exporters (gRPC and HTTP): the shared option / environment
// builder (internal/otlpconfig, internal/oconf). c20Sig, c20SigVar, c20SigPath
// come from the per-package file.

const (
	c20Absent = iota
	c20Valid
	c20Invalid
	c20Empty
)

func c20Env(key string, state int, valid, invalid string) {
	switch state {
	case c20Absent:
		vndUnsetEnv(key)
	case c20Valid:
		vndSetEnv(key, valid)
	case c20Invalid:
		vndSetEnv(key, invalid)
	case c20Empty:
		vndSetEnv(key, "")
	}
}

func c20Clear() {
	for _, s := range []string{"ENDPOINT", "HEADERS", "COMPRESSION", "TIMEOUT", "CERTIFICATE", "CLIENT_CERTIFICATE", "CLIENT_KEY", "INSECURE"} {
		vndUnsetEnv("OTEL_EXPORTER_OTLP_" + s)
		vndUnsetEnv("OTEL_EXPORTER_OTLP_" + c20SigVar + "_" + s)
	}
	vndUnsetEnv("OTEL_EXPORTER_OTLP_METRICS_TEMPORALITY_PREFERENCE")
	vndUnsetEnv("OTEL_EXPORTER_OTLP_METRICS_DEFAULT_HISTOGRAM_AGGREGATION")
}

func c20Build(grpc bool, opts []GenericOption) SignalConfig {
	if grpc {
		var o []GRPCOption
		for _, x := range opts {
			o = append(o, x)
		}
		return c20Sig(NewGRPCConfig(o...))
	}
	var o []HTTPOption
	for _, x := range opts {
		o = append(o, x)
	}
	return c20Sig(NewHTTPConfig(o...))
}

// endpoint and URL path
func HarnessC20ConfEndpoint() {
	c20Clear()
	grpc := vndChoice(2) == 1
	sig, gen := vndChoice(4), vndChoice(4)
	c20Env("OTEL_EXPORTER_OTLP_"+c20SigVar+"_ENDPOINT", sig, "http://sig:2/p", "http://[::1")
	c20Env("OTEL_EXPORTER_OTLP_ENDPOINT", gen, "https://gen:3/q", "http://[::1")
	var opts []GenericOption
	optEndpoint, optPath := vndChoice(2) == 1, vndChoice(2) == 1
	if optEndpoint {
		opts = append(opts, WithEndpoint("opt:1"))
	}
	if optPath {
		opts = append(opts, WithURLPath("/optp"))
	}
	// or a complete URL given as an option, with or without a path (a URL
	// without a path means the default signal path, not a path from the
	// environment)
	optURL := 0
	if !optEndpoint && !optPath {
		optURL = vndChoice(3)
	}
	switch optURL {
	case 1:
		opts = append(opts, WithEndpointURL("http://url:5"))
	case 2:
		opts = append(opts, WithEndpointURL("https://url:5/u"))
	}
	c := c20Build(grpc, opts)
	vndReach("resolved")
	if optURL != 0 {
		vndReach("option-url")
		vndAssert(c.Endpoint == "url:5", "endpoint-from-highest-precedence-source")
		if !grpc {
			want := c20SigPath
			if optURL == 2 {
				want = "/u"
			}
			vndAssert(c.URLPath == want, "url-path-from-the-option-url-or-the-default")
		}
		vndAssert(c.Insecure == (optURL == 1), "insecure-from-the-scheme-of-the-winning-endpoint")
		return
	}
	if grpc {
		// the gRPC target is host + path of the chosen URL; there is no URL path setting
		want := "localhost:4317"
		switch {
		case optEndpoint:
			want = "opt:1"
		case sig == c20Valid:
			want = "sig:2/p"
		case gen == c20Valid:
			want = "gen:3/q"
		}
		vndAssert(c.Endpoint == want, "endpoint-from-highest-precedence-source")
	} else {
		wantHost, wantPath := "localhost:4318", c20SigPath
		switch {
		case sig == c20Valid:
			wantHost, wantPath = "sig:2", "/p"
		case gen == c20Valid:
			wantHost, wantPath = "gen:3", "/q"+c20SigPath
		}
		if optEndpoint {
			wantHost = "opt:1"
		}
		if optPath {
			wantPath = "/optp"
		}
		vndAssert(c.Endpoint == wantHost, "endpoint-from-highest-precedence-source")
		vndAssert(c.URLPath == wantPath, "url-path-signal-verbatim-generic-appended")
	}
	// the scheme of the winning endpoint variable decides transport security
	switch {
	case sig == c20Valid:
		vndAssert(c.Insecure, "insecure-from-the-scheme-of-the-winning-endpoint")
	case gen == c20Valid:
		vndAssert(!c.Insecure, "insecure-from-the-scheme-of-the-winning-endpoint")
	}
}

func HarnessC20ConfTimeout() {
	c20Clear()
	grpc := vndChoice(2) == 1
	sig, gen := vndChoice(4), vndChoice(4)
	d := vndStringN(2)
	vndAssume(vndAnd(vndAnd(d[0] >= '0', d[0] <= '9'), vndAnd(d[1] >= '0', d[1] <= '9')))
	sigMS := time.Duration(int(d[0]-'0')*10+int(d[1]-'0')) * time.Millisecond
	c20Env("OTEL_EXPORTER_OTLP_"+c20SigVar+"_TIMEOUT", sig, d, "1x")
	c20Env("OTEL_EXPORTER_OTLP_TIMEOUT", gen, "2500", "-")
	var opts []GenericOption
	opt := vndChoice(2) == 1
	if opt {
		opts = append(opts, WithTimeout(7*time.Second))
	}
	c := c20Build(grpc, opts)
	vndReach("resolved")
	want := 10 * time.Second
	switch {
	case opt:
		want = 7 * time.Second
	case sig == c20Valid:
		want = sigMS
	case gen == c20Valid:
		want = 2500 * time.Millisecond
	}
	vndAssert(c.Timeout == want, "timeout-from-highest-precedence-source")
}

func HarnessC20ConfCompression() {
	c20Clear()
	grpc := vndChoice(2) == 1
	sig, gen := vndChoice(5), vndChoice(5)
	c20CompEnv("OTEL_EXPORTER_OTLP_"+c20SigVar+"_COMPRESSION", sig)
	c20CompEnv("OTEL_EXPORTER_OTLP_COMPRESSION", gen)
	var opts []GenericOption
	opt := vndChoice(2) == 1
	if opt {
		opts = append(opts, WithCompression(NoCompression))
	}
	c := c20Build(grpc, opts)
	vndReach("resolved")
	w, sigBad := c20CompWant(sig, gen)
	want := NoCompression
	if !opt && w == 1 {
		want = GzipCompression
	}
	// an unsupported signal-specific value is either skipped (the generic value
	// applies) or read as "no compression" (the default): C20 allows both
	// ("ignored in favour of defaults or given their documented meaning")
	vndAssert(c.Compression == want || (!opt && sigBad && c.Compression == NoCompression), "compression-from-highest-precedence-source")
}

func HarnessC20ConfHeaders() {
	c20Clear()
	grpc := vndChoice(2) == 1
	sig, gen := vndChoice(4), vndChoice(4)
	c20Env("OTEL_EXPORTER_OTLP_"+c20SigVar+"_HEADERS", sig, "s=2", "=bad")
	c20Env("OTEL_EXPORTER_OTLP_HEADERS", gen, "g=3", "nokey")
	var opts []GenericOption
	opt := vndChoice(2) == 1
	if opt {
		opts = append(opts, WithHeaders(map[string]string{"o": "1"}))
	}
	c := c20Build(grpc, opts)
	vndReach("resolved")
	wantK, wantV := "", ""
	switch {
	case opt:
		wantK, wantV = "o", "1"
	case sig == c20Valid:
		wantK, wantV = "s", "2"
	case gen == c20Valid:
		wantK, wantV = "g", "3"
	}
	if wantK == "" {
		vndAssert(len(c.Headers) == 0, "no-headers-without-a-valid-source")
	} else {
		// as for compression: an unparsable signal-specific value may also
		// resolve to the default (no headers)
		vndAssert((len(c.Headers) == 1 && c.Headers[wantK] == wantV) || (!opt && sig == c20Invalid && len(c.Headers) == 0), "headers-from-highest-precedence-source")
	}
}

// compression sources: absent, empty, "gzip", "none", unsupported
var c20CompVals = []string{"\x00", "", "gzip", "none", "zstd"}

func c20CompEnv(key string, i int) {
	if i == 0 {
		vndUnsetEnv(key)
	} else {
		vndSetEnv(key, c20CompVals[i])
	}
}

// c20CompWant: what the two environment sources ask for: 0 nothing, 1 gzip,
// 2 none; sigBad: the signal-specific value is present but unsupported
func c20CompWant(sig, gen int) (want int, sigBad bool) {
	conv := func(i int) int {
		switch i {
		case 2:
			return 1
		case 3:
			return 2
		}
		return 0
	}
	if sig >= 2 {
		if sig == 4 {
			return conv(gen), true
		}
		return conv(sig), false
	}
	return conv(gen), false
}
