package otlploggrpc

import (
	"time"
)

// source states of one environment variable
const (
	c20Absent = iota
	c20Valid
	c20Invalid
	c20Empty
)

func c20Env(key string, state int, valid, invalid string) {
	switch state {
	case c20Absent:
		vndUnsetEnv(key)
	case c20Valid:
		vndSetEnv(key, valid)
	case c20Invalid:
		vndSetEnv(key, invalid)
	case c20Empty:
		vndSetEnv(key, "")
	}
}

func c20Clear() {
	for _, k := range []string{"OTEL_EXPORTER_OTLP_LOGS_ENDPOINT", "OTEL_EXPORTER_OTLP_ENDPOINT", "OTEL_EXPORTER_OTLP_LOGS_HEADERS", "OTEL_EXPORTER_OTLP_HEADERS",
		"OTEL_EXPORTER_OTLP_LOGS_COMPRESSION", "OTEL_EXPORTER_OTLP_COMPRESSION", "OTEL_EXPORTER_OTLP_LOGS_TIMEOUT", "OTEL_EXPORTER_OTLP_TIMEOUT",
		"OTEL_EXPORTER_OTLP_LOGS_CERTIFICATE", "OTEL_EXPORTER_OTLP_CERTIFICATE", "OTEL_EXPORTER_OTLP_LOGS_CLIENT_CERTIFICATE", "OTEL_EXPORTER_OTLP_LOGS_CLIENT_KEY",
		"OTEL_EXPORTER_OTLP_CLIENT_CERTIFICATE", "OTEL_EXPORTER_OTLP_CLIENT_KEY"} {
		vndUnsetEnv(k)
	}
}

// endpoint: option > signal variable > generic variable > default (the gRPC
// target is the host of the URL; there is no URL path setting)
func HarnessC20LogGRPCEndpoint() {
	c20Clear()
	sig, gen := vndChoice(4), vndChoice(4)
	c20Env("OTEL_EXPORTER_OTLP_LOGS_ENDPOINT", sig, "http://sig:2/p", "http://[::1")
	c20Env("OTEL_EXPORTER_OTLP_ENDPOINT", gen, "https://gen:3/q", "http://[::1")
	var opts []Option
	optEndpoint := vndChoice(2) == 1
	if optEndpoint {
		opts = append(opts, WithEndpoint("opt:1"))
	}
	c := newConfig(opts)
	vndReach("resolved")
	want := "localhost:4317"
	switch {
	case optEndpoint:
		want = "opt:1"
	case sig == c20Valid:
		want = "sig:2"
	case gen == c20Valid:
		want = "gen:3"
	}
	vndAssert(c.endpoint.Value == want, "endpoint-from-highest-precedence-source")
	switch {
	case sig == c20Valid:
		vndAssert(c.insecure.Value, "insecure-from-the-scheme-of-the-winning-endpoint")
	case gen == c20Valid:
		vndAssert(!c.insecure.Value, "insecure-from-the-scheme-of-the-winning-endpoint")
	}
}

func HarnessC20LogGRPCTimeout() {
	c20Clear()
	sig, gen := vndChoice(4), vndChoice(4)
	// the signal-specific value is an arbitrary two-digit number of milliseconds
	d := vndStringN(2)
	vndAssume(vndAnd(vndAnd(d[0] >= '0', d[0] <= '9'), vndAnd(d[1] >= '0', d[1] <= '9')))
	sigMS := time.Duration(int(d[0]-'0')*10+int(d[1]-'0')) * time.Millisecond
	c20Env("OTEL_EXPORTER_OTLP_LOGS_TIMEOUT", sig, d, "1x")
	c20Env("OTEL_EXPORTER_OTLP_TIMEOUT", gen, "2500", "-")
	var opts []Option
	opt := vndChoice(2) == 1
	if opt {
		opts = append(opts, WithTimeout(7*time.Second))
	}
	c := newConfig(opts)
	vndReach("resolved")
	want := 10 * time.Second
	switch {
	case opt:
		want = 7 * time.Second
	case sig == c20Valid:
		want = sigMS
	case gen == c20Valid:
		want = 2500 * time.Millisecond
	}
	vndAssert(c.timeout.Value == want, "timeout-from-highest-precedence-source")
}

func HarnessC20LogGRPCCompression() {
	c20Clear()
	sig, gen := vndChoice(5), vndChoice(5)
	c20CompEnv("OTEL_EXPORTER_OTLP_LOGS_COMPRESSION", sig)
	c20CompEnv("OTEL_EXPORTER_OTLP_COMPRESSION", gen)
	var opts []Option
	opt := vndChoice(2) == 1
	if opt {
		opts = append(opts, WithCompressor("none"))
	}
	c := newConfig(opts)
	vndReach("resolved")
	w, sigBad := c20CompWant(sig, gen)
	want := NoCompression
	if !opt && w == 1 {
		want = GzipCompression
	}
	// an unsupported signal-specific value is either skipped (the generic value
	// applies) or read as "no compression" (the default): C20 allows both
	// ("ignored in favour of defaults or given their documented meaning")
	vndAssert(c.compression.Value == want || (!opt && sigBad && c.compression.Value == NoCompression), "compression-from-highest-precedence-source")
}

func HarnessC20LogGRPCHeaders() {
	c20Clear()
	sig, gen := vndChoice(4), vndChoice(4)
	c20Env("OTEL_EXPORTER_OTLP_LOGS_HEADERS", sig, "s=2", "=bad")
	c20Env("OTEL_EXPORTER_OTLP_HEADERS", gen, "g=3", "nokey")
	var opts []Option
	opt := vndChoice(2) == 1
	if opt {
		opts = append(opts, WithHeaders(map[string]string{"o": "1"}))
	}
	c := newConfig(opts)
	vndReach("resolved")
	wantK, wantV := "", ""
	switch {
	case opt:
		wantK, wantV = "o", "1"
	case sig == c20Valid:
		wantK, wantV = "s", "2"
	case gen == c20Valid:
		wantK, wantV = "g", "3"
	}
	if wantK == "" {
		vndAssert(len(c.headers.Value) == 0, "no-headers-without-a-valid-source")
	} else {
		vndAssert(len(c.headers.Value) == 1 && c.headers.Value[wantK] == wantV, "headers-from-highest-precedence-source")
	}
}

// compression sources: absent, empty, "gzip", "none", unsupported
var c20CompVals = []string{"\x00", "", "gzip", "none", "zstd"}

func c20CompEnv(key string, i int) {
	if i == 0 {
		vndUnsetEnv(key)
	} else {
		vndSetEnv(key, c20CompVals[i])
	}
}

// c20CompWant: what the two environment sources ask for: 0 nothing, 1 gzip,
// 2 none; sigBad: the signal-specific value is present but unsupported
func c20CompWant(sig, gen int) (want int, sigBad bool) {
	conv := func(i int) int {
		switch i {
		case 2:
			return 1
		case 3:
			return 2
		}
		return 0
	}
	if sig >= 2 {
		if sig == 4 {
			return conv(gen), true
		}
		return conv(sig), false
	}
	return conv(gen), false
}
