package log

import (
	"strconv"

	"go.opentelemetry.io/otel/sdk/resource"
)

func c20EmptyResource() *resource.Resource { return resource.Empty() }

// C20.blrp: log batch settings: option over environment over default; values
// below one are ignored; the batch size is clamped to the queue size
func HarnessC20LogBatch() {
	for _, k := range []string{envarMaxQSize, envarExpInterval, envarExpTimeout, envarExpMaxBatchSize} {
		vndUnsetEnv(k)
	}
	vals := []string{"", "-1", "0", "5", "x"}
	qe, be := vals[vndChoice(len(vals))], vals[vndChoice(len(vals))]
	if qe != "" {
		vndSetEnv(envarMaxQSize, qe)
	}
	if be != "" {
		vndSetEnv(envarExpMaxBatchSize, be)
	}
	var opts []BatchProcessorOption
	qo := int(vndI64())
	vndAssume(vndAnd(qo >= -3, qo <= 9))
	useQ := vndChoice(2) == 1
	if useQ {
		opts = append(opts, WithMaxQueueSize(qo))
	}
	c := newBatchConfig(opts)
	vndReach("resolved")
	wantQ := dfltMaxQSize
	if qe == "5" {
		wantQ = 5
	}
	if useQ {
		vndAssert(vndImplies(qo >= 1, c.maxQSize.Value == qo), "option-over-environment")
		vndAssert(vndImplies(qo < 1, c.maxQSize.Value == wantQ), "option-below-one-ignored-in-favour-of-environment-or-default")
	} else {
		vndAssert(c.maxQSize.Value == wantQ, "environment-over-default-bad-values-ignored")
	}
	vndAssert(c.maxQSize.Value >= 1, "queue-size-at-least-one")
	vndAssert(c.expMaxBatchSize.Value >= 1, "batch-size-at-least-one")
	if be == "5" {
		vndAssert(c.expMaxBatchSize.Value <= c.maxQSize.Value, "configured-batch-size-clamped-to-queue-size")
	}
}

func HarnessC20LogLimits() {
	for _, k := range []string{envarAttrCntLim, envarAttrValLenLim} {
		vndUnsetEnv(k)
	}
	// both limits; the environment value is any string of up to 2 bytes ("-1",
	// "0", "07", "+5", garbage, empty), the option any small integer including
	// 0 and negative values (which mean "nothing" and "unlimited")
	which := vndChoice(2)
	key, def := envarAttrCntLim, defaultAttrCntLim
	if which == 1 {
		key, def = envarAttrValLenLim, defaultAttrValLenLim
	}
	d := vndString(2)
	set := vndChoice(2) == 1
	if set {
		vndSetEnv(key, d)
	}
	var opts []LoggerProviderOption
	useOpt := vndChoice(2) == 1
	ov := int(vndI32())
	vndAssume(vndAnd(ov >= -2, ov <= 200))
	if useOpt {
		if which == 0 {
			opts = append(opts, WithAttributeCountLimit(ov))
		} else {
			opts = append(opts, WithAttributeValueLengthLimit(ov))
		}
	}
	c := newProviderConfig(opts)
	vndReach("resolved")
	got := c.attrCntLim
	other, otherDef := c.attrValLenLim, defaultAttrValLenLim
	if which == 1 {
		got, other, otherDef = c.attrValLenLim, c.attrCntLim, defaultAttrCntLim
	}
	vndAssert(got.Set && other.Set && other.Value == otherDef, "untouched-limit-keeps-its-default")
	switch {
	case useOpt:
		vndAssert(got.Value == ov, "option-over-environment")
	case set && d != "":
		n, err := strconv.Atoi(d)
		if err == nil {
			vndAssert(got.Value == n, "limit-from-environment")
		} else {
			vndAssert(got.Value == def, "unparsable-limit-gives-default")
		}
	default:
		vndAssert(got.Value == def, "default-limit")
	}
}
