package log

import "go.opentelemetry.io/otel/sdk/resource"

func c20EmptyResource() *resource.Resource { return resource.Empty() }

// C20.blrp: log batch settings: option over environment over default; values
// below one are ignored; the batch size is clamped to the queue size
func HarnessC20LogBatch() {
	for _, k := range []string{envarMaxQSize, envarExpInterval, envarExpTimeout, envarExpMaxBatchSize} {
		vndUnsetEnv(k)
	}
	vals := []string{"", "-1", "0", "5", "x"}
	qe, be := vals[vndChoice(len(vals))], vals[vndChoice(len(vals))]
	if qe != "" {
		vndSetEnv(envarMaxQSize, qe)
	}
	if be != "" {
		vndSetEnv(envarExpMaxBatchSize, be)
	}
	var opts []BatchProcessorOption
	qo := int(vndI64())
	vndAssume(vndAnd(qo >= -3, qo <= 9))
	useQ := vndChoice(2) == 1
	if useQ {
		opts = append(opts, WithMaxQueueSize(qo))
	}
	c := newBatchConfig(opts)
	vndReach("resolved")
	wantQ := dfltMaxQSize
	if qe == "5" {
		wantQ = 5
	}
	if useQ {
		vndAssert(vndImplies(qo >= 1, c.maxQSize.Value == qo), "option-over-environment")
		vndAssert(vndImplies(qo < 1, c.maxQSize.Value == wantQ), "option-below-one-ignored-in-favour-of-environment-or-default")
	} else {
		vndAssert(c.maxQSize.Value == wantQ, "environment-over-default-bad-values-ignored")
	}
	vndAssert(c.maxQSize.Value >= 1, "queue-size-at-least-one")
	vndAssert(c.expMaxBatchSize.Value >= 1, "batch-size-at-least-one")
	if be == "5" {
		vndAssert(c.expMaxBatchSize.Value <= c.maxQSize.Value, "configured-batch-size-clamped-to-queue-size")
	}
}

func HarnessC20LogLimits() {
	for _, k := range []string{envarAttrCntLim, envarAttrValLenLim} {
		vndUnsetEnv(k)
	}
	d := vndStringN(1)
	set := vndChoice(2) == 1
	if set {
		vndSetEnv(envarAttrCntLim, d)
	}
	var opts []LoggerProviderOption
	useOpt := vndChoice(2) == 1
	if useOpt {
		opts = append(opts, WithAttributeCountLimit(3))
	}
	c := newProviderConfig(opts)
	vndReach("resolved")
	digit := vndAnd(d[0] >= '0', d[0] <= '9')
	switch {
	case useOpt:
		vndAssert(c.attrCntLim.Value == 3, "option-over-environment")
	case set:
		vndAssert(vndImplies(digit, c.attrCntLim.Value == int(d[0]-'0')), "limit-from-environment")
		vndAssert(vndImplies(vndNot(digit), c.attrCntLim.Value == defaultAttrCntLim), "unparsable-limit-gives-default")
	default:
		vndAssert(c.attrCntLim.Value == defaultAttrCntLim, "default-limit")
	}
}
