package attribute

// C05 harnesses: canonical attribute sets.

var c05Keys = []Key{"", "a", "b", "c"}

// c05KV: a key from a small alphabet (including the empty key) and a value of
// a symbolic type with symbolic payload
func c05KV(nkeys, ntypes int) KeyValue {
	k := c05Keys[vndChoice(nkeys)]
	switch vndChoice(ntypes) {
	case 0:
		return k.Int64(vndI64())
	case 1:
		return k.String(vndStringN(1))
	case 2:
		return k.Bool(vndBool())
	case 3:
		return k.Float64(vndF64())
	case 4:
		f := vndF64()
		vndAssume(f == f) // slices holding NaN are carved out (known finding, HarnessC05NaNSlice)
		return k.Float64Slice([]float64{f})
	case 5:
		return k.Int64Slice([]int64{vndI64()})
	case 6:
		return k.StringSlice([]string{vndStringN(1)})
	default:
		return k.BoolSlice([]bool{vndBool()})
	}
}

// c05SameKV: same key and same typed value (what Set equality means)
func c05SameKV(a, b KeyValue) bool {
	if a.Key != b.Key {
		return false
	}
	return a.Value == b.Value
}

// model: for every key the value supplied last, keys in increasing order
func c05Model(in []KeyValue) []KeyValue {
	var out []KeyValue
	for _, k := range c05Keys {
		found := false
		var last KeyValue
		for _, kv := range in {
			if kv.Key == k {
				found, last = true, kv
			}
		}
		if found {
			out = append(out, last)
		}
	}
	return out
}

// c05SameItems: got holds exactly the items of want, in any order (keys are unique)
func c05SameItems(got, want []KeyValue, label string) {
	vndAssert(len(got) == len(want), label)
	if len(got) != len(want) {
		return
	}
	for _, w := range want {
		n := 0
		for _, g := range got {
			if g.Key == w.Key {
				n++
				vndAssert(g.Value == w.Value, label)
			}
		}
		vndAssert(n == 1, label)
	}
}

func c05CheckSet(s *Set, m []KeyValue, tag string) {
	vndAssert(s.Len() == len(m), tag+"-len-equals-distinct-keys")
	sl := s.ToSlice()
	vndAssert(len(sl) == len(m), tag+"-toslice-length")
	if len(sl) != len(m) {
		return
	}
	it := s.Iter()
	for i := range m {
		vndAssert(sl[i].Key == m[i].Key, tag+"-sorted-each-key-once")
		vndAssert(sl[i].Value == m[i].Value, tag+"-last-value-wins")
		g, ok := s.Get(i)
		vndAssert(ok, tag+"-get-in-range")
		vndAssert(c05SameKV(g, m[i]), tag+"-get-agrees")
		v, ok := s.Value(m[i].Key)
		vndAssert(ok, tag+"-value-lookup-finds-key")
		vndAssert(v == m[i].Value, tag+"-value-lookup-agrees")
		vndAssert(s.HasValue(m[i].Key), tag+"-hasvalue")
		vndAssert(it.Next(), tag+"-iter-next")
		vndAssert(c05SameKV(it.Attribute(), m[i]), tag+"-iter-agrees")
	}
	vndAssert(!it.Next(), tag+"-iter-ends")
	_, ok := s.Get(len(m))
	vndAssert(!ok, tag+"-get-out-of-range")
	_, ok = s.Value("zz")
	vndAssert(!ok, tag+"-value-lookup-absent-key")
}

// C05.new: construction, de-duplication, filtering
func HarnessC05New() {
	n := vndChoice(vndParam("N", 3) + 1)
	nk, nt := vndParam("NK", 3), vndParam("NT", 3)
	in := make([]KeyValue, n)
	for i := range in {
		in[i] = c05KV(nk, nt)
	}
	orig := append([]KeyValue(nil), in...)
	var filter Filter
	filtered := vndChoice(2) == 1
	if filtered {
		filter = func(kv KeyValue) bool { return kv.Key != "b" }
	}
	s, dropped := NewSetWithFiltered(in, filter)
	m := c05Model(orig)
	var keep, drop []KeyValue
	for _, kv := range m {
		if filtered && kv.Key == "b" {
			drop = append(drop, kv)
		} else {
			keep = append(keep, kv)
		}
	}
	if len(m) < n {
		vndReach("duplicates")
	}
	if len(drop) > 0 {
		vndReach("filtered")
	}
	c05CheckSet(&s, keep, "new")
	c05SameItems(dropped, drop, "filtered-out-items-returned")
	vndAssert(s.Equals(&s), "set-equals-itself")
	e := s.Equivalent()
	vndAssert(e == s.Equivalent(), "equivalent-is-stable")
}

// nothing is lost from the caller's slice: concrete distinct INT64 tags
func HarnessC05Perm() {
	n := 1 + vndChoice(vndParam("N", 4))
	in := make([]KeyValue, n)
	for i := range in {
		in[i] = c05Keys[vndChoice(3)].Int(i + 1)
	}
	sl := in
	NewSetWithFiltered(in, func(kv KeyValue) bool { return kv.Key != "a" })
	seen := 0
	for _, kv := range sl {
		seen |= 1 << kv.Value.AsInt64()
	}
	vndReach("perm")
	vndAssert(seen == (1<<(n+1))-2, "callers-slice-is-a-permutation-of-the-input")
}

// C05.eq: Equals / Equivalent agree with the key -> typed value mapping,
// independent of input order and duplication
func HarnessC05Eq() {
	nk, nt := vndParam("NK", 3), vndParam("NT", 3)
	n1 := vndChoice(vndParam("N", 2) + 1)
	n2 := vndChoice(vndParam("N", 2) + 1)
	a := make([]KeyValue, n1)
	for i := range a {
		a[i] = c05KV(nk, nt)
	}
	b := make([]KeyValue, n2)
	for i := range b {
		b[i] = c05KV(nk, nt)
	}
	ma, mb := c05Model(a), c05Model(b)
	s1, s2 := NewSet(a...), NewSet(b...)
	want := len(ma) == len(mb)
	if want {
		for i := range ma {
			want = vndAnd(want, c05SameKV(ma[i], mb[i]))
		}
	}
	if len(ma) == len(mb) && len(ma) > 0 {
		vndReach("comparable")
	}
	vndAssert(s1.Equals(&s2) == want, "equals-iff-same-mapping")
	vndAssert((s1.Equivalent() == s2.Equivalent()) == want, "equivalent-keys-equal-iff-same-mapping")
	vndAssert(s1.Equals(&s2) == s2.Equals(&s1), "equals-symmetric")
}

// permutation and duplication invariance: the second input is the first one
// reversed, preceded by a superseded duplicate
func HarnessC05Order() {
	nk, nt := vndParam("NK", 3), vndParam("NT", 4)
	n := 1 + vndChoice(vndParam("N", 3))
	a := make([]KeyValue, n)
	for i := range a {
		a[i] = c05KV(nk, nt)
		for j := 0; j < i; j++ {
			vndAssume(a[i].Key != a[j].Key)
		}
	}
	b := []KeyValue{a[vndChoice(n)].Key.Int(7)}
	for i := n - 1; i >= 0; i-- {
		b = append(b, a[i])
	}
	s1, s2 := NewSet(append([]KeyValue(nil), a...)...), NewSet(b...)
	vndReach("order")
	vndAssert(s1.Equals(&s2), "order-and-duplication-insensitive")
	vndAssert(s1.Equivalent() == s2.Equivalent(), "order-and-duplication-insensitive-map-key")
}

// C05.boundary: 9, 10, 11, 12 distinct keys cross computeDistinctFixed ->
// computeDistinctReflect
func HarnessC05Boundary() {
	keys := []Key{"k00", "k01", "k02", "k03", "k04", "k05", "k06", "k07", "k08", "k09", "k10", "k11"}
	n := 9 + vndChoice(4)
	var in, rev, m []KeyValue
	for i := 0; i < n; i++ {
		kv := keys[i].Int64(vndI64())
		m = append(m, kv)
	}
	// a rotated order and the reverse order
	r := vndChoice(n)
	for i := 0; i < n; i++ {
		in = append(in, m[(i+r)%n])
		rev = append(rev, m[n-1-i])
	}
	s1, s2 := NewSet(in...), NewSet(rev...)
	vndReach("boundary")
	c05CheckSet(&s1, m, "boundary")
	vndAssert(s1.Equals(&s2), "boundary-order-insensitive")
	vndAssert(s1.Equals(&s1), "boundary-reflexive")
	// one differing value makes them unequal
	alt := append([]KeyValue(nil), m...)
	j := vndChoice(n)
	d := vndI64()
	alt[j] = keys[j].Int64(d)
	s3 := NewSet(alt...)
	vndAssert(s1.Equals(&s3) == (d == m[j].Value.AsInt64()), "boundary-equals-iff-same-values")
}

// C05.filter: Set.Filter partitions and leaves the receiver unchanged
func HarnessC05Filter() {
	n := vndChoice(vndParam("N", 4) + 1)
	keys := []Key{"a", "b", "c", "d"}
	var m []KeyValue
	for i := 0; i < n; i++ {
		m = append(m, keys[i].Int64(vndI64()))
	}
	s := NewSet(append([]KeyValue(nil), m...)...)
	mask := vndChoice(1 << uint(n)) // which positions the filter keeps
	keepFn := func(kv KeyValue) bool {
		for i := 0; i < n; i++ {
			if kv.Key == keys[i] {
				return mask&(1<<uint(i)) != 0
			}
		}
		return true
	}
	var f Filter
	if vndChoice(4) != 0 {
		f = keepFn
	} else {
		mask = (1 << uint(n)) - 1
	}
	kept, dropped := s.Filter(f)
	var wk, wd []KeyValue
	for i := range m {
		if mask&(1<<uint(i)) != 0 {
			wk = append(wk, m[i])
		} else {
			wd = append(wd, m[i])
		}
	}
	if len(wd) > 0 && len(wk) > 0 {
		vndReach("split")
	}
	c05CheckSet(&kept, wk, "filter-kept")
	c05CheckSet(&s, m, "filter-receiver-unchanged")
	c05SameItems(dropped, wd, "filter-dropped-part")
}

// C05.merge: MergeIterator = sorted union, first set wins
func HarnessC05Merge() {
	mk := func() []KeyValue {
		var kvs []KeyValue
		for _, k := range c05Keys {
			if vndChoice(2) == 1 {
				kvs = append(kvs, k.Int64(vndI64()))
			}
		}
		return kvs
	}
	a, b := mk(), mk()
	s1, s2 := NewSet(append([]KeyValue(nil), a...)...), NewSet(append([]KeyValue(nil), b...)...)
	var want []KeyValue
	for _, k := range c05Keys {
		var got *KeyValue
		for i := range b {
			if b[i].Key == k {
				got = &b[i]
			}
		}
		for i := range a {
			if a[i].Key == k {
				got = &a[i]
			}
		}
		if got != nil {
			want = append(want, *got)
		}
	}
	mi := NewMergeIterator(&s1, &s2)
	i := 0
	for mi.Next() {
		if i < len(want) {
			vndAssert(c05SameKV(mi.Attribute(), want[i]), "merge-is-sorted-union-first-wins")
		}
		i++
	}
	vndReach("merge")
	vndAssert(i == len(want), "merge-yields-each-key-once")
}

// Demonstrator of a recorded finding: a set holding a float64 slice with NaN
// is not equal to itself and is never found again as a map key.
func HarnessC05NaNSlice() {
	f := vndF64()
	s := NewSet(Key("k").Float64Slice([]float64{f}))
	vndReach("nan-slice")
	vndAssert(s.Equals(&s), "set-with-nan-slice-equals-itself")
}

// scalar FLOAT64 values are stored as bits: NaN is fine there
func HarnessC05NaNScalar() {
	f := vndF64()
	s := NewSet(Key("k").Float64(f))
	vndReach("nan-scalar")
	vndAssert(s.Equals(&s), "set-equals-itself")
	m := map[Distinct]int{s.Equivalent(): 1}
	vndAssert(m[s.Equivalent()] == 1, "set-found-as-map-key")
}

// long inputs with few distinct keys (the library sort switches algorithm
// above 12 elements): last value still wins
func HarnessC05Long() {
	n := 13 + vndChoice(vndParam("EXTRA", 4))
	pat := vndChoice(3)
	in := make([]KeyValue, n)
	for i := range in {
		var k Key
		switch pat {
		case 0:
			k = c05Keys[1+i%2]
		case 1:
			k = c05Keys[1+i%3]
		default:
			k = c05Keys[1+(i/2)%2]
		}
		in[i] = k.Int64(vndI64())
	}
	orig := append([]KeyValue(nil), in...)
	s := NewSet(in...)
	vndReach("long")
	c05CheckSet(&s, c05Model(orig), "long")
}

// C05.encode: the default encoding agrees with the contents: sorted key=value
// pairs joined by commas, with '=', ',' and the escape character '\' in string
// keys and values each preceded by one '\' (the documented rule, which makes the
// encoding unique)
func c05Escape(s string) string {
	out := ""
	for i := 0; i < len(s); i++ {
		if s[i] == '=' || s[i] == ',' || s[i] == '\\' {
			out += "\\"
		}
		out += s[i : i+1]
	}
	return out
}

func HarnessC05Encode() {
	n := 1 + vndChoice(2)
	var kvs []KeyValue
	var keys, vals []string
	for i := 0; i < n; i++ {
		k := vndString(vndParam("KN", 2))
		v := vndString(vndParam("VN", 2))
		for j := 0; j < len(k); j++ {
			vndAssume(k[j] < 0x80)
		}
		for j := 0; j < len(v); j++ {
			vndAssume(v[j] < 0x80)
		}
		if i == 1 {
			vndAssume(k != keys[0])
		}
		kvs = append(kvs, String(k, v))
		keys, vals = append(keys, k), append(vals, v)
	}
	set := NewSet(kvs...)
	got := set.Encoded(DefaultEncoder())
	// reference: pairs in key order
	if n == 2 && keys[1] < keys[0] {
		keys[0], keys[1] = keys[1], keys[0]
		vals[0], vals[1] = vals[1], vals[0]
	}
	want := ""
	for i := 0; i < n; i++ {
		if i > 0 {
			want += ","
		}
		want += c05Escape(keys[i]) + "=" + c05Escape(vals[i])
	}
	vndReach("encoded")
	vndAssert(len(got) == len(want), "encoding-agrees-with-the-contents")
	if len(got) == len(want) {
		vndAssert(got == want, "encoding-agrees-with-the-contents")
	}
}

// C05.sizes: every size from 0 to 16 distinct keys (the Set uses fixed-size
// arrays up to a threshold): nothing lost, sorted, every key found
var c05ManyKeys = []Key{"k00", "k01", "k02", "k03", "k04", "k05", "k06", "k07", "k08", "k09", "k10", "k11", "k12", "k13", "k14", "k15"}

func HarnessC05Sizes() {
	n := vndChoice(17)
	base := vndI64()
	var kvs []KeyValue
	for i := n - 1; i >= 0; i-- { // reversed input order
		kvs = append(kvs, c05ManyKeys[i].Int64(base+int64(i)))
	}
	s := NewSet(kvs...)
	vndReach("built")
	vndAssert(s.Len() == n, "long-no-key-lost")
	for i := 0; i < n; i++ {
		v, ok := s.Value(c05ManyKeys[i])
		vndAssert(ok && v.AsInt64() == base+int64(i), "lookup-agrees-with-contents")
		kv, ok2 := s.Get(i)
		vndAssert(ok2 && kv.Key == c05ManyKeys[i], "sorted-by-key")
	}
	vndAssert(s.Equals(&s), "set-equals-itself")
}
