package transform

import (
	"time"

	"go.opentelemetry.io/otel/attribute"
	"go.opentelemetry.io/otel/sdk/instrumentation"
	"go.opentelemetry.io/otel/sdk/metric/metricdata"
	"go.opentelemetry.io/otel/sdk/resource"
	mpb "go.opentelemetry.io/proto/otlp/metrics/v1"
)

var (
	c13T0 = time.Unix(0, 1700000000000000001)
	c13T1 = time.Unix(0, 1700000000000000999)
)

// C13.metrics: each data-point kind against a field-by-field table
func HarnessC13Metrics() {
	// start time: ordinary, the zero time, or before the Unix epoch (both are
	// not representable as unsigned nanoseconds and are encoded as 0)
	wantT0 := uint64(1700000000000000001)
	switch vndChoice(3) {
	case 0:
		c13T0 = time.Unix(0, 1700000000000000001)
	case 1:
		c13T0, wantT0 = time.Time{}, 0
	case 2:
		c13T0, wantT0 = time.Unix(0, -5), 0
	}
	set := attribute.NewSet(attribute.Int64("k", vndI64()))
	temp := metricdata.Temporality(vndChoice(3)) // undefined, cumulative, delta
	iv, fv := vndI64(), vndF64()
	mono := vndBool()
	kind := vndChoice(4)
	var data metricdata.Aggregation
	switch kind {
	case 0:
		data = metricdata.Sum[int64]{Temporality: temp, IsMonotonic: mono, DataPoints: []metricdata.DataPoint[int64]{{Attributes: set, StartTime: c13T0, Time: c13T1, Value: iv}}}
	case 1:
		data = metricdata.Gauge[float64]{DataPoints: []metricdata.DataPoint[float64]{{Attributes: set, StartTime: c13T0, Time: c13T1, Value: fv}}}
	case 2:
		nb := vndChoice(3) // 0, 1, 2 boundaries
		bounds := []float64{1, 5}[:nb]
		counts := make([]uint64, nb+1)
		for i := range counts {
			counts[i] = vndU64()
		}
		hp := metricdata.HistogramDataPoint[int64]{Attributes: set, StartTime: c13T0, Time: c13T1, Count: vndU64(), Sum: iv, Bounds: bounds, BucketCounts: counts}
		if vndChoice(2) == 1 {
			hp.Min, hp.Max = metricdata.NewExtrema(iv), metricdata.NewExtrema(iv)
		}
		data = metricdata.Histogram[int64]{Temporality: temp, DataPoints: []metricdata.HistogramDataPoint[int64]{hp}}
	case 3:
		ep := metricdata.ExponentialHistogramDataPoint[float64]{Attributes: set, StartTime: c13T0, Time: c13T1, Count: vndU64(), Sum: fv, Scale: int32(vndI64()), ZeroCount: vndU64(),
			PositiveBucket: metricdata.ExponentialBucket{Offset: int32(vndI64()), Counts: []uint64{vndU64(), vndU64()}},
			NegativeBucket: metricdata.ExponentialBucket{Offset: int32(vndI64()), Counts: []uint64{vndU64()}}, ZeroThreshold: 0}
		data = metricdata.ExponentialHistogram[float64]{Temporality: temp, DataPoints: []metricdata.ExponentialHistogramDataPoint[float64]{ep}}
	}
	rm := &metricdata.ResourceMetrics{Resource: resource.NewSchemaless(attribute.String("r", "1")),
		ScopeMetrics: []metricdata.ScopeMetrics{{Scope: instrumentation.Scope{Name: "s", Version: "v"}, Metrics: []metricdata.Metrics{{Name: "m", Description: "d", Unit: "u", Data: data}}}}}
	out, err := ResourceMetrics(rm)
	if kind != 1 && temp == 0 {
		vndReach("unknown-temporality")
		vndAssert(err != nil, "unknown-temporality-reported")
		return
	}
	vndReach("encoded")
	vndAssert(err == nil, "known-data-encodes-without-error")
	if err != nil || out == nil {
		return
	}
	vndAssert(len(out.ScopeMetrics) == 1 && out.ScopeMetrics[0].Scope.Name == "s" && out.ScopeMetrics[0].Scope.Version == "v", "scope-identical")
	vndAssert(len(out.Resource.Attributes) == 1, "resource-identical")
	m := out.ScopeMetrics[0].Metrics[0]
	vndAssert(m.Name == "m" && m.Description == "d" && m.Unit == "u", "name-description-unit-identical")
	wantTemp := mpb.AggregationTemporality_AGGREGATION_TEMPORALITY_CUMULATIVE
	if temp == metricdata.DeltaTemporality {
		wantTemp = mpb.AggregationTemporality_AGGREGATION_TEMPORALITY_DELTA
	}
	sameF := func(a, b float64) bool { return vndOr(a == b, vndAnd(a != a, b != b)) }
	switch kind {
	case 0:
		s := m.GetSum()
		vndAssert(s != nil && s.AggregationTemporality == wantTemp && s.IsMonotonic == mono, "sum-temporality-and-monotonicity")
		p := s.DataPoints[0]
		vndAssert(p.GetAsInt() == iv, "sum-value-identical")
		vndAssert(p.StartTimeUnixNano == wantT0 && p.TimeUnixNano == 1700000000000000999, "timestamps-identical")
		vndAssert(len(p.Attributes) == 1 && p.Attributes[0].Value.GetIntValue() == set.ToSlice()[0].Value.AsInt64(), "data-point-attributes-identical")
	case 1:
		g := m.GetGauge()
		vndAssert(g != nil && sameF(g.DataPoints[0].GetAsDouble(), fv), "gauge-value-identical")
	case 2:
		h := m.GetHistogram()
		vndAssert(h != nil && h.AggregationTemporality == wantTemp, "histogram-temporality")
		p := h.DataPoints[0]
		in := data.(metricdata.Histogram[int64]).DataPoints[0]
		vndAssert(p.Count == in.Count, "histogram-count-identical")
		vndAssert(p.Sum != nil && *p.Sum == float64(iv), "histogram-sum-identical")
		vndAssert(len(p.BucketCounts) == len(in.BucketCounts), "bucket-layout-identical")
		vndAssert(len(p.ExplicitBounds) == len(in.Bounds), "bucket-layout-identical")
		for i := range in.BucketCounts {
			if i < len(p.BucketCounts) {
				vndAssert(p.BucketCounts[i] == in.BucketCounts[i], "bucket-counts-identical")
			}
		}
		_, hasMin := in.Min.Value()
		vndAssert((p.Min != nil) == hasMin && (p.Max != nil) == hasMin, "extrema-present-iff-recorded")
		if hasMin && p.Min != nil {
			vndAssert(*p.Min == float64(iv), "extrema-identical")
		}
	case 3:
		e := m.GetExponentialHistogram()
		vndAssert(e != nil && e.AggregationTemporality == wantTemp, "exponential-histogram-temporality")
		p := e.DataPoints[0]
		in := data.(metricdata.ExponentialHistogram[float64]).DataPoints[0]
		vndAssert(p.Count == in.Count && p.ZeroCount == in.ZeroCount && p.Scale == in.Scale, "exponential-histogram-count-scale-zero-identical")
		vndAssert(p.Sum != nil && sameF(*p.Sum, fv), "exponential-histogram-sum-identical")
		vndAssert(p.Positive.Offset == in.PositiveBucket.Offset && len(p.Positive.BucketCounts) == 2 && p.Positive.BucketCounts[0] == in.PositiveBucket.Counts[0] && p.Positive.BucketCounts[1] == in.PositiveBucket.Counts[1], "positive-bucket-layout-identical")
		vndAssert(p.Negative.Offset == in.NegativeBucket.Offset && len(p.Negative.BucketCounts) == 1 && p.Negative.BucketCounts[0] == in.NegativeBucket.Counts[0], "negative-bucket-layout-identical")
	}
}
