package zipkin

import (
	"time"

	zkmodel "github.com/openzipkin/zipkin-go/model"

	"go.opentelemetry.io/otel/sdk/resource"
	"go.opentelemetry.io/otel/sdk/trace/tracetest"
	"go.opentelemetry.io/otel/trace"
)

// C13.zipkin: ids bit-exact, parent nil iff invalid, kind table, start and duration
func HarnessC13Zipkin() {
	var tid trace.TraceID
	var sid, psid trace.SpanID
	for i := range tid {
		tid[i] = vndU8()
	}
	for i := range sid {
		sid[i] = vndU8()
	}
	if vndChoice(2) == 1 {
		for i := range psid {
			psid[i] = vndU8()
		}
	}
	kind := trace.SpanKind(vndInt(-1, 7))
	name := vndStringN(1)
	start, end := time.Unix(100, 5), time.Unix(103, 9)
	s := tracetest.SpanStub{Name: name, SpanKind: kind, StartTime: start, EndTime: end, Resource: resource.Empty(),
		SpanContext: trace.NewSpanContext(trace.SpanContextConfig{TraceID: tid, SpanID: sid}),
		Parent:      trace.NewSpanContext(trace.SpanContextConfig{TraceID: tid, SpanID: psid})}.Snapshot()
	m := toZipkinSpanModel(s)
	vndReach("zipkin")
	var hi, lo, id, pid uint64
	for i := 0; i < 8; i++ {
		hi = hi<<8 | uint64(tid[i])
		lo = lo<<8 | uint64(tid[8+i])
		id = id<<8 | uint64(sid[i])
		pid = pid<<8 | uint64(psid[i])
	}
	vndAssert(m.TraceID.High == hi && m.TraceID.Low == lo, "trace-id-preserved")
	vndAssert(uint64(m.ID) == id, "span-id-preserved")
	if psid.IsValid() {
		vndAssert(m.ParentID != nil, "parent-id-present")
		if m.ParentID != nil {
			vndAssert(uint64(*m.ParentID) == pid, "parent-id-preserved")
		}
	} else {
		vndAssert(m.ParentID == nil, "no-parent-id-for-a-root")
	}
	vndAssert(m.Name == name, "name-preserved")
	want := zkmodel.Undetermined
	switch kind {
	case trace.SpanKindServer:
		want = zkmodel.Server
	case trace.SpanKindClient:
		want = zkmodel.Client
	case trace.SpanKindProducer:
		want = zkmodel.Producer
	case trace.SpanKindConsumer:
		want = zkmodel.Consumer
	}
	vndAssert(m.Kind == want, "kind-table")
	vndAssert(m.Timestamp.Equal(start), "start-time-preserved")
	vndAssert(m.Duration == end.Sub(start), "duration-preserved")
}

// stands in for resource.Default (process and host detection) in the package init
func c13DefaultResource() *resource.Resource { return resource.Empty() }
