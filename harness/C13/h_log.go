package transform

import (
	"time"

	"go.opentelemetry.io/otel/attribute"
	api "go.opentelemetry.io/otel/log"
	"go.opentelemetry.io/otel/sdk/instrumentation"
	"go.opentelemetry.io/otel/sdk/log"
	"go.opentelemetry.io/otel/sdk/log/logtest"
	"go.opentelemetry.io/otel/sdk/resource"
	"go.opentelemetry.io/otel/trace"
)

func c13Record(i int, res *resource.Resource, sc *instrumentation.Scope) log.Record {
	sev := api.Severity(vndInt(0, 25))
	var tid trace.TraceID
	var sid trace.SpanID
	tid[15], sid[7] = vndU8(), vndU8()
	return logtest.RecordFactory{
		EventName: "ev", Timestamp: time.Unix(0, 1700000000000000001), ObservedTimestamp: time.Unix(0, 1700000000000000999),
		Severity: sev, SeverityText: "st", Body: api.Int64Value(int64(i)),
		Attributes:           []api.KeyValue{api.Int64("a", vndI64()), api.String("s", vndStringN(1)), api.Slice("l", api.BoolValue(vndBool())), api.Map("m", api.Float64("f", 1.5))},
		TraceID:              tid, SpanID: sid, TraceFlags: trace.TraceFlags(vndU8()),
		Resource:             res,
		InstrumentationScope: sc,
		DroppedAttributes:    3,
	}.NewRecord()
}

// C13.logs: one record field by field
func HarnessC13LogRecord() {
	r := c13Record(7, resource.NewSchemaless(attribute.String("r", "1")), &instrumentation.Scope{Name: "s"})
	o := LogRecord(r)
	vndReach("record")
	vndAssert(o.TimeUnixNano == 1700000000000000001 && o.ObservedTimeUnixNano == 1700000000000000999, "timestamps-identical")
	vndAssert(o.EventName == "ev" && o.SeverityText == "st", "event-name-and-severity-text-identical")
	vndAssert(int32(o.SeverityNumber) == int32(r.Severity()) || (r.Severity() > 24 && o.SeverityNumber == 0), "severity-table")
	vndAssert(o.Body.GetIntValue() == 7, "body-identical")
	vndAssert(o.Flags == uint32(r.TraceFlags()), "flags-identical")
	vndAssert(o.DroppedAttributesCount == 3, "dropped-attribute-count-identical")
	tid, sid := r.TraceID(), r.SpanID()
	if tid.IsValid() {
		vndAssert(len(o.TraceId) == 16 && o.TraceId[15] == tid[15], "trace-id-identical")
	} else {
		vndAssert(len(o.TraceId) == 0, "invalid-trace-id-omitted")
	}
	if sid.IsValid() {
		vndAssert(len(o.SpanId) == 8 && o.SpanId[7] == sid[7], "span-id-identical")
	} else {
		vndAssert(len(o.SpanId) == 0, "invalid-span-id-omitted")
	}
	vndAssert(len(o.Attributes) == 4, "every-attribute-encoded")
	if len(o.Attributes) == 4 {
		var want [2]api.Value
		i := 0
		r.WalkAttributes(func(kv api.KeyValue) bool {
			if i < 2 {
				want[i] = kv.Value
			}
			i++
			return true
		})
		vndAssert(o.Attributes[0].Value.GetIntValue() == want[0].AsInt64(), "int-attribute-identical")
		vndAssert(o.Attributes[1].Value.GetStringValue() == want[1].AsString(), "string-attribute-identical")
		vndAssert(len(o.Attributes[2].Value.GetArrayValue().GetValues()) == 1, "slice-attribute-identical")
		kvl := o.Attributes[3].Value.GetKvlistValue().GetValues()
		vndAssert(len(kvl) == 1 && kvl[0].Key == "f" && kvl[0].Value.GetDoubleValue() == 1.5, "map-attribute-identical")
	}
}

// C13.group (logs)
func HarnessC13LogGroup() {
	resources := []*resource.Resource{resource.NewSchemaless(attribute.String("r", "1")), resource.NewSchemaless(attribute.String("r", "2"))}
	scopes := []*instrumentation.Scope{{Name: "s1"}, {Name: "s1", Attributes: attribute.NewSet(attribute.String("t", "x"))}, {Name: "s2", Version: "v", SchemaURL: "u"},
		{Version: "v9", SchemaURL: "u9"}} // the last one: no name, but a version and a schema URL
	n := 1 + vndChoice(3)
	var recs []log.Record
	var ri, si []int
	for i := 0; i < n; i++ {
		r, s := vndChoice(2), vndChoice(4)
		ri, si = append(ri, r), append(si, s)
		recs = append(recs, logtest.RecordFactory{Body: api.Int64Value(int64(i)), Resource: resources[r], InstrumentationScope: scopes[s]}.NewRecord())
	}
	out := ResourceLogs(recs)
	vndReach("grouped")
	for i := 0; i < n; i++ {
		found := 0
		for _, rl := range out {
			for _, sl := range rl.ScopeLogs {
				vndAssert(len(sl.LogRecords) > 0, "no-empty-scope-group")
				for _, lr := range sl.LogRecords {
					if lr.Body.GetIntValue() != int64(i) {
						continue
					}
					found++
					wantR := "1"
					if ri[i] == 1 {
						wantR = "2"
					}
					vndAssert(len(rl.Resource.Attributes) == 1 && rl.Resource.Attributes[0].Value.GetStringValue() == wantR, "record-under-its-own-resource")
					sc := scopes[si[i]]
					vndAssert(sl.Scope != nil && sl.Scope.Name == sc.Name && sl.Scope.Version == sc.Version && len(sl.Scope.Attributes) == sc.Attributes.Len() && sl.SchemaUrl == sc.SchemaURL, "record-under-its-own-scope")
				}
			}
		}
		vndAssert(found == 1, "every-record-appears-exactly-once")
	}
}
