package tracetransform

import (
	"time"

	"go.opentelemetry.io/otel/attribute"
	"go.opentelemetry.io/otel/codes"
	"go.opentelemetry.io/otel/sdk/instrumentation"
	"go.opentelemetry.io/otel/sdk/resource"
	tracesdk "go.opentelemetry.io/otel/sdk/trace"
	"go.opentelemetry.io/otel/sdk/trace/tracetest"
	"go.opentelemetry.io/otel/trace"
	tracepb "go.opentelemetry.io/proto/otlp/trace/v1"
)

func c13Bytes(n int) []byte {
	b := make([]byte, n)
	for i := range b {
		b[i] = vndU8()
	}
	return b
}

func c13Clamp(v int) uint32 {
	return uint32(vndIteI64(v < 0, 0, vndIteI64(int64(v) > 0xffffffff, 0xffffffff, int64(v))))
}

func c13SameBytes(a, b []byte) bool {
	if len(a) != len(b) {
		return false
	}
	ok := true
	for i := range a {
		ok = vndAnd(ok, a[i] == b[i])
	}
	return ok
}

// C13.span: one span with symbolic scalars against a field-by-field table
func HarnessC13Span() {
	var tid trace.TraceID
	var sid, psid trace.SpanID
	copy(tid[:], c13Bytes(16))
	copy(sid[:], c13Bytes(8))
	parentKind := vndChoice(3) // none, local, remote
	if parentKind != 0 {
		psid[7] = vndU8()
	}
	ts, _ := trace.ParseTraceState("k=v")
	sc := trace.NewSpanContext(trace.SpanContextConfig{TraceID: tid, SpanID: sid, TraceState: ts, TraceFlags: trace.TraceFlags(vndU8())})
	psc := trace.NewSpanContext(trace.SpanContextConfig{TraceID: tid, SpanID: psid, Remote: parentKind == 2})
	kind := trace.SpanKind(vndInt(-1, 7))
	code := codes.Code(vndU32())
	dA, dE, dL := int(vndI64()), 3, -1
	name := vndStringN(1)
	start := time.Unix(0, []int64{-5, 0, 1700000000000000001}[vndChoice(3)])
	end := time.Unix(0, 1700000000000000999)
	iv := vndI64()
	fv := vndF64()
	sv := vndStringN(1)
	bv := vndBool()
	lts, _ := trace.ParseTraceState("l=1")
	linkSC := trace.NewSpanContext(trace.SpanContextConfig{TraceID: trace.TraceID{9}, SpanID: trace.SpanID{8}, Remote: vndChoice(2) == 1, TraceState: lts})
	dLA, dEA := int(vndI64()), 1<<33
	stub := tracetest.SpanStub{
		Name: name, SpanContext: sc, Parent: psc, SpanKind: kind, StartTime: start, EndTime: end,
		Attributes: []attribute.KeyValue{attribute.Int64("i", iv), attribute.Float64("f", fv), attribute.String("s", sv), attribute.Bool("b", bv),
			attribute.Int64Slice("is", []int64{iv}), attribute.StringSlice("ss", []string{sv})},
		Events:            []tracesdk.Event{{Name: "e", Time: end, Attributes: []attribute.KeyValue{attribute.Int64("x", iv)}, DroppedAttributeCount: dEA}},
		Links: []tracesdk.Link{{SpanContext: linkSC, Attributes: []attribute.KeyValue{attribute.Int64("y", iv)}, DroppedAttributeCount: dLA},
			{SpanContext: trace.NewSpanContext(trace.SpanContextConfig{TraceID: trace.TraceID{7, 7}, SpanID: trace.SpanID{6, 6}})}},
		Status:            tracesdk.Status{Code: code, Description: "d"},
		DroppedAttributes: dA, DroppedEvents: dE, DroppedLinks: dL,
		Resource: resource.NewSchemaless(attribute.String("r", "1")),
	}
	s := span(stub.Snapshot())
	vndReach("span")
	vndAssert(c13SameBytes(s.TraceId, tid[:]), "trace-id-identical")
	vndAssert(c13SameBytes(s.SpanId, sid[:]), "span-id-identical")
	if psid.IsValid() {
		vndAssert(c13SameBytes(s.ParentSpanId, psid[:]), "parent-id-identical")
	} else {
		vndAssert(len(s.ParentSpanId) == 0, "no-parent-id-for-a-root")
	}
	vndAssert(s.TraceState == "k=v", "tracestate-identical")
	vndAssert(s.Name == name, "name-identical")
	wantKind := tracepb.Span_SPAN_KIND_UNSPECIFIED
	switch kind {
	case trace.SpanKindInternal:
		wantKind = tracepb.Span_SPAN_KIND_INTERNAL
	case trace.SpanKindServer:
		wantKind = tracepb.Span_SPAN_KIND_SERVER
	case trace.SpanKindClient:
		wantKind = tracepb.Span_SPAN_KIND_CLIENT
	case trace.SpanKindProducer:
		wantKind = tracepb.Span_SPAN_KIND_PRODUCER
	case trace.SpanKindConsumer:
		wantKind = tracepb.Span_SPAN_KIND_CONSUMER
	}
	vndAssert(s.Kind == wantKind, "kind-table")
	wantCode := tracepb.Status_STATUS_CODE_UNSET
	if code == codes.Ok {
		wantCode = tracepb.Status_STATUS_CODE_OK
	} else if code == codes.Error {
		wantCode = tracepb.Status_STATUS_CODE_ERROR
	}
	vndAssert(s.Status.Code == wantCode && s.Status.Message == "d", "status-table")
	wantStart := uint64(0)
	if start.UnixNano() > 0 {
		wantStart = uint64(start.UnixNano())
	}
	vndAssert(s.StartTimeUnixNano == wantStart, "start-time-nanoseconds-clamped-at-1970")
	vndAssert(s.EndTimeUnixNano == 1700000000000000999, "end-time-nanoseconds")
	vndAssert(s.DroppedAttributesCount == c13Clamp(dA), "dropped-attributes-count-clamped")
	vndAssert(s.DroppedEventsCount == c13Clamp(dE), "dropped-events-count-clamped")
	vndAssert(s.DroppedLinksCount == c13Clamp(dL), "dropped-links-count-clamped")
	// typed attribute values
	vndAssert(len(s.Attributes) == 6, "every-attribute-encoded")
	if len(s.Attributes) == 6 {
		vndAssert(s.Attributes[0].Key == "i" && s.Attributes[0].Value.GetIntValue() == iv, "int-attribute-value")
		gf := s.Attributes[1].Value.GetDoubleValue()
		vndAssert(vndOr(gf == fv, vndAnd(gf != gf, fv != fv)), "double-attribute-value")
		vndAssert(s.Attributes[2].Value.GetStringValue() == sv, "string-attribute-value")
		vndAssert(s.Attributes[3].Value.GetBoolValue() == bv, "bool-attribute-value")
		av := s.Attributes[4].Value.GetArrayValue()
		vndAssert(av != nil && len(av.Values) == 1 && av.Values[0].GetIntValue() == iv, "int-slice-attribute-value")
		sa := s.Attributes[5].Value.GetArrayValue()
		vndAssert(sa != nil && len(sa.Values) == 1 && sa.Values[0].GetStringValue() == sv, "string-slice-attribute-value")
	}
	// events and links
	vndAssert(len(s.Events) == 1 && s.Events[0].Name == "e" && s.Events[0].TimeUnixNano == 1700000000000000999, "event-name-and-time")
	if len(s.Events) == 1 {
		vndAssert(s.Events[0].DroppedAttributesCount == c13Clamp(dEA), "event-dropped-attributes-count")
		vndAssert(len(s.Events[0].Attributes) == 1 && s.Events[0].Attributes[0].Value.GetIntValue() == iv, "event-attributes")
	}
	vndAssert(len(s.Links) == 2, "link-encoded")
	if len(s.Links) == 2 {
		// each link keeps its own ids
		vndAssert(s.Links[1].TraceId[0] == 7 && s.Links[1].TraceId[1] == 7 && s.Links[1].SpanId[0] == 6 && s.Links[1].SpanId[1] == 6, "link-ids")
		vndAssert(s.Links[0].TraceId[1] == 0 && s.Links[0].SpanId[1] == 0, "link-ids")
		l := s.Links[0]
		vndAssert(l.TraceId[0] == 9 && l.SpanId[0] == 8, "link-ids")
		vndAssert(l.DroppedAttributesCount == c13Clamp(dLA), "link-dropped-attributes-count")
		vndAssert(len(l.Attributes) == 1 && l.Attributes[0].Value.GetIntValue() == iv, "link-attributes")
		vndAssert(l.TraceState == "l=1", "link-tracestate")
		wantFlags := uint32(tracepb.SpanFlags_SPAN_FLAGS_CONTEXT_HAS_IS_REMOTE_MASK)
		if linkSC.IsRemote() {
			wantFlags |= uint32(tracepb.SpanFlags_SPAN_FLAGS_CONTEXT_IS_REMOTE_MASK)
		}
		vndAssert(l.Flags == wantFlags, "link-remote-flag")
	}
	wantPF := uint32(tracepb.SpanFlags_SPAN_FLAGS_CONTEXT_HAS_IS_REMOTE_MASK)
	if parentKind == 2 {
		wantPF |= uint32(tracepb.SpanFlags_SPAN_FLAGS_CONTEXT_IS_REMOTE_MASK)
	}
	vndAssert(s.Flags == wantPF, "parent-remote-flag")
}

// C13.group: every span appears exactly once under its own resource and scope
func HarnessC13Group() {
	resources := []*resource.Resource{
		resource.NewSchemaless(attribute.String("r", "1")),
		resource.NewSchemaless(attribute.String("r", "2")),
		resource.NewWithAttributes("https://schema", attribute.String("r", "1")), // same attributes, other schema URL
	}
	scopes := []instrumentation.Scope{
		{Name: "s1"},
		{Name: "s2", Version: "v"},
		{Name: "s1", Attributes: attribute.NewSet(attribute.String("tenant", "x"))}, // differs only in scope attributes
		{},
	}
	n := 1 + vndChoice(vndParam("N", 3))
	var spans []tracesdk.ReadOnlySpan
	var ri, si []int
	for i := 0; i < n; i++ {
		r, s := vndChoice(len(resources)), vndChoice(len(scopes))
		ri, si = append(ri, r), append(si, s)
		spans = append(spans, tracetest.SpanStub{Name: string(rune('a' + i)), Resource: resources[r], InstrumentationScope: scopes[s],
			SpanContext: trace.NewSpanContext(trace.SpanContextConfig{TraceID: trace.TraceID{1}, SpanID: trace.SpanID{byte(i + 1)}})}.Snapshot())
	}
	out := Spans(spans)
	vndReach("grouped")
	for i := 0; i < n; i++ {
		found := 0
		for _, rs := range out {
			for _, ss := range rs.ScopeSpans {
				vndAssert(len(ss.Spans) > 0, "no-empty-scope-group")
				for _, sp := range ss.Spans {
					if sp.Name != string(rune('a'+i)) {
						continue
					}
					found++
					// under its own resource (the library compares resources by attributes)
					wantR := "1"
					if ri[i] == 1 {
						wantR = "2"
					}
					vndAssert(len(rs.Resource.Attributes) == 1 && rs.Resource.Attributes[0].Value.GetStringValue() == wantR, "span-under-its-own-resource")
					// under its own instrumentation scope, field by field
					sc := scopes[si[i]]
					if si[i] == 3 {
						vndAssert(ss.Scope == nil || (ss.Scope.Name == "" && ss.Scope.Version == "" && len(ss.Scope.Attributes) == 0), "span-under-its-own-scope")
					} else {
						vndAssert(ss.Scope != nil && ss.Scope.Name == sc.Name && ss.Scope.Version == sc.Version, "span-under-its-own-scope")
						if ss.Scope != nil {
							vndAssert(len(ss.Scope.Attributes) == sc.Attributes.Len(), "span-under-its-own-scope-attributes")
						}
					}
					vndAssert(ss.SchemaUrl == sc.SchemaURL, "scope-schema-url")
				}
			}
		}
		vndAssert(found == 1, "every-span-appears-exactly-once")
	}
}
