package global

import (
	"context"
	"sync"

	"go.opentelemetry.io/otel/metric"
	"go.opentelemetry.io/otel/metric/embedded"
	"go.opentelemetry.io/otel/metric/noop"
	"go.opentelemetry.io/otel/propagation"
	"go.opentelemetry.io/otel/trace"
	tnoop "go.opentelemetry.io/otel/trace/noop"
)

// ---- a recording SDK (delegate)

type c16SDK struct {
	embedded.MeterProvider
	mu        sync.Mutex
	meters    int
	adds      map[string]int // measurements per instrument name
	created   map[string]int
	callbacks int // registered and not unregistered
	regCalls  int
	regs      []*c16Reg
	observed  map[string]int // observations the SDK accepted, per instrument name
	foreign   int            // observations made with an instrument that is not the SDK's own
}

func c16NewSDK() *c16SDK { return &c16SDK{adds: map[string]int{}, created: map[string]int{}} }

func (s *c16SDK) Meter(name string, _ ...metric.MeterOption) metric.Meter {
	s.mu.Lock()
	s.meters++
	s.mu.Unlock()
	return &c16Meter{sdk: s}
}

type c16Meter struct {
	noop.Meter
	sdk *c16SDK
}

type c16Inst struct {
	embedded.Int64Counter
	embedded.Int64UpDownCounter
	embedded.Int64Histogram
	embedded.Int64Gauge
	embedded.Float64Counter
	embedded.Float64Gauge
	sdk  *c16SDK
	name string
}

func (i *c16Inst) hit() {
	i.sdk.mu.Lock()
	i.sdk.adds[i.name]++
	i.sdk.mu.Unlock()
}
func (i *c16Inst) Add(context.Context, int64, ...metric.AddOption)       { i.hit() }
func (i *c16Inst) Record(context.Context, int64, ...metric.RecordOption) { i.hit() }

type c16FInst struct {
	embedded.Float64Counter
	embedded.Float64Gauge
	sdk  *c16SDK
	name string
}

func (i *c16FInst) hit() {
	i.sdk.mu.Lock()
	i.sdk.adds[i.name]++
	i.sdk.mu.Unlock()
}
func (i *c16FInst) Add(context.Context, float64, ...metric.AddOption)       { i.hit() }
func (i *c16FInst) Record(context.Context, float64, ...metric.RecordOption) { i.hit() }

func (m *c16Meter) mk(name string) *c16Inst {
	m.sdk.mu.Lock()
	m.sdk.created[name]++
	m.sdk.mu.Unlock()
	return &c16Inst{sdk: m.sdk, name: name}
}
func (m *c16Meter) Int64Counter(n string, _ ...metric.Int64CounterOption) (metric.Int64Counter, error) {
	return m.mk(n), nil
}
func (m *c16Meter) Int64UpDownCounter(n string, _ ...metric.Int64UpDownCounterOption) (metric.Int64UpDownCounter, error) {
	return m.mk(n), nil
}
func (m *c16Meter) Int64Histogram(n string, _ ...metric.Int64HistogramOption) (metric.Int64Histogram, error) {
	return m.mk(n), nil
}
func (m *c16Meter) Int64Gauge(n string, _ ...metric.Int64GaugeOption) (metric.Int64Gauge, error) {
	return m.mk(n), nil
}
func (m *c16Meter) Float64Counter(n string, _ ...metric.Float64CounterOption) (metric.Float64Counter, error) {
	m.mk(n)
	return &c16FInst{sdk: m.sdk, name: n}, nil
}
func (m *c16Meter) Float64Gauge(n string, _ ...metric.Float64GaugeOption) (metric.Float64Gauge, error) {
	m.mk(n)
	return &c16FInst{sdk: m.sdk, name: n}, nil
}

type c16Reg struct {
	embedded.Registration
	sdk  *c16SDK
	done bool
	f    metric.Callback
}

func (r *c16Reg) Unregister() error {
	r.sdk.mu.Lock()
	if !r.done {
		r.done = true
		r.sdk.callbacks--
	}
	r.sdk.mu.Unlock()
	return nil
}

func (m *c16Meter) RegisterCallback(f metric.Callback, _ ...metric.Observable) (metric.Registration, error) {
	m.sdk.mu.Lock()
	m.sdk.callbacks++
	m.sdk.regCalls++
	r := &c16Reg{sdk: m.sdk, f: f}
	m.sdk.regs = append(m.sdk.regs, r)
	m.sdk.mu.Unlock()
	return r, nil
}

// the recording SDK's collection: every callback still registered is run with
// an observer that accepts only the SDK's own instruments (as a real SDK does)
type c16Observer struct {
	embedded.Observer
	sdk *c16SDK
}

func (o c16Observer) ObserveInt64(i metric.Int64Observable, _ int64, _ ...metric.ObserveOption) {
	if x, ok := i.(*c16IObs); ok {
		o.sdk.observed[x.name]++
	} else {
		o.sdk.foreign++
	}
}

func (o c16Observer) ObserveFloat64(i metric.Float64Observable, _ float64, _ ...metric.ObserveOption) {
	if x, ok := i.(*c16FObs); ok {
		o.sdk.observed[x.name]++
	} else {
		o.sdk.foreign++
	}
}

func (s *c16SDK) collect() {
	s.mu.Lock()
	regs := append([]*c16Reg(nil), s.regs...)
	s.mu.Unlock()
	if s.observed == nil {
		s.observed = map[string]int{}
	}
	for _, r := range regs {
		if !r.done {
			r.f(context.Background(), c16Observer{sdk: s})
		}
	}
}

// create instrument of kind k on meter m and return a function that records once
func c16Make(m metric.Meter, k int, name string) func() {
	ctx := context.Background()
	switch k {
	case 0:
		i, _ := m.Int64Counter(name)
		return func() { i.Add(ctx, 1) }
	case 1:
		i, _ := m.Int64UpDownCounter(name)
		return func() { i.Add(ctx, 1) }
	case 2:
		i, _ := m.Int64Histogram(name)
		return func() { i.Record(ctx, 1) }
	case 3:
		i, _ := m.Int64Gauge(name)
		return func() { i.Record(ctx, 1) }
	case 4:
		i, _ := m.Float64Counter(name)
		return func() { i.Add(ctx, 1) }
	default:
		i, _ := m.Float64Gauge(name)
		return func() { i.Record(ctx, 1) }
	}
}

// ---- C16.seq
func HarnessC16Seq() {
	mp := &meterProvider{}
	sdk := c16NewSDK()
	m := mp.Meter("m")
	k := vndChoice(6)
	rec1 := c16Make(m, k, "i")
	var rec2 func()
	twice := vndChoice(2) == 1
	if twice {
		rec2 = c16Make(m, k, "i") // the same instrument requested again
	}
	rec1() // before installation: dropped
	// callbacks registered before installation, one of them possibly unregistered
	cb := func(context.Context, metric.Observer) error { return nil }
	r1, _ := m.RegisterCallback(cb)
	r2, _ := m.RegisterCallback(cb)
	unregFirst := vndChoice(2) == 1
	if unregFirst {
		r1.Unregister()
	}
	mp.setDelegate(sdk)
	vndReach("installed")
	vndAssert(sdk.adds["i"] == 0, "measurements-before-installation-are-not-forwarded")
	rec1()
	vndAssert(sdk.adds["i"] == 1, "instrument-forwards-after-installation")
	if twice {
		rec2()
		vndAssert(sdk.adds["i"] == 2, "every-handle-of-an-instrument-forwards-after-installation")
	}
	wantCb := 2
	if unregFirst {
		wantCb = 1
	}
	vndAssert(sdk.regCalls == wantCb, "each-callback-registered-with-sdk-exactly-once-unless-unregistered")
	// unregistering after installation reaches the SDK registration
	r2.Unregister()
	r2.Unregister()
	vndAssert(sdk.callbacks == wantCb-1, "unregister-after-installation-reaches-sdk-once")
	// instruments and meters created afterwards go straight to the SDK
	rec3 := c16Make(mp.Meter("m2"), k, "j")
	rec3()
	vndAssert(sdk.adds["j"] == 1, "instrument-created-after-installation-forwards")
}

// ---- C16.conc: installation racing one other operation
func HarnessC16Conc() {
	vndRaceOn(true)
	mp := &meterProvider{}
	sdk := c16NewSDK()
	m := mp.Meter("m")
	cb := func(context.Context, metric.Observer) error { return nil }
	scenario := vndChoice(vndParam("SCN", 4))
	var reg metric.Registration
	if scenario == 2 {
		reg, _ = m.RegisterCallback(cb)
	}
	var rec func()
	var wg sync.WaitGroup
	wg.Add(2)
	go func() {
		defer wg.Done()
		mp.setDelegate(sdk)
	}()
	go func() {
		defer wg.Done()
		switch scenario {
		case 0: // instrument creation + measurement on a meter obtained before
			rec = c16Make(m, vndChoice(2)*5, "i")
			rec()
		case 1: // callback registration
			reg, _ = m.RegisterCallback(cb)
		case 2: // unregistration of an earlier callback
			reg.Unregister()
		case 3: // a new meter and instrument while installation is in progress
			rec = c16Make(mp.Meter("late"), 0, "i")
		}
	}()
	wg.Wait()
	vndReach("joined")
	switch scenario {
	case 0, 3:
		before := sdk.adds["i"]
		rec()
		vndAssert(sdk.adds["i"] == before+1, "instrument-created-during-installation-is-connected")
	case 1:
		vndAssert(sdk.regCalls == 1, "callback-registered-during-installation-reaches-sdk-exactly-once")
	case 2:
		vndAssert(sdk.callbacks == 0, "callback-unregistered-during-installation-is-not-left-registered")
		vndAssert(sdk.regCalls <= 1, "callback-registered-at-most-once")
	}
}

// demonstrator / regression: SetMeterProvider || Unregister must not deadlock
func HarnessC16Unregister() {
	mp := &meterProvider{}
	sdk := c16NewSDK()
	m := mp.Meter("m")
	reg, _ := m.RegisterCallback(func(context.Context, metric.Observer) error { return nil })
	var wg sync.WaitGroup
	wg.Add(2)
	go func() { defer wg.Done(); mp.setDelegate(sdk) }()
	go func() { defer wg.Done(); reg.Unregister() }()
	wg.Wait()
	vndReach("joined")
	vndAssert(sdk.callbacks == 0, "callback-unregistered-during-installation-is-not-left-registered")
}

// ---- tracer side
type c16TP struct {
	tnoop.TracerProvider
	mu     sync.Mutex
	starts int
}
type c16Tracer struct {
	tnoop.Tracer
	tp *c16TP
}

func (p *c16TP) Tracer(string, ...trace.TracerOption) trace.Tracer { return &c16Tracer{tp: p} }
func (t *c16Tracer) Start(ctx context.Context, n string, o ...trace.SpanStartOption) (context.Context, trace.Span) {
	t.tp.mu.Lock()
	t.tp.starts++
	t.tp.mu.Unlock()
	return t.Tracer.Start(ctx, n, o...)
}

func HarnessC16Tracer() {
	vndRaceOn(true)
	tp := &tracerProvider{}
	sdk := &c16TP{}
	early := tp.Tracer("early")
	early.Start(context.Background(), "before") // dropped
	var late trace.Tracer
	var wg sync.WaitGroup
	wg.Add(2)
	go func() { defer wg.Done(); tp.setDelegate(sdk) }()
	go func() {
		defer wg.Done()
		late = tp.Tracer("late")
		late.Start(context.Background(), "during")
	}()
	wg.Wait()
	before := sdk.starts
	early.Start(context.Background(), "after")
	late.Start(context.Background(), "after")
	vndReach("joined")
	vndAssert(sdk.starts == before+2, "spans-started-after-installation-reach-the-sdk")
}

// ---- the remaining instrument kinds

func (m *c16Meter) Float64UpDownCounter(n string, _ ...metric.Float64UpDownCounterOption) (metric.Float64UpDownCounter, error) {
	m.mk(n)
	return &c16FInst2{c16FInst: c16FInst{sdk: m.sdk, name: n}}, nil
}
func (m *c16Meter) Float64Histogram(n string, _ ...metric.Float64HistogramOption) (metric.Float64Histogram, error) {
	m.mk(n)
	return &c16FInst2{c16FInst: c16FInst{sdk: m.sdk, name: n}}, nil
}

type c16FInst2 struct {
	embedded.Float64UpDownCounter
	embedded.Float64Histogram
	c16FInst
}

// observable instruments of the recording SDK
type c16IObs struct {
	metric.Int64Observable
	embedded.Int64ObservableCounter
	embedded.Int64ObservableUpDownCounter
	embedded.Int64ObservableGauge
	name string
}

type c16FObs struct {
	metric.Float64Observable
	embedded.Float64ObservableCounter
	embedded.Float64ObservableUpDownCounter
	embedded.Float64ObservableGauge
	name string
}

func (m *c16Meter) Int64ObservableCounter(n string, _ ...metric.Int64ObservableCounterOption) (metric.Int64ObservableCounter, error) {
	m.mk(n)
	return &c16IObs{name: n}, nil
}
func (m *c16Meter) Int64ObservableUpDownCounter(n string, _ ...metric.Int64ObservableUpDownCounterOption) (metric.Int64ObservableUpDownCounter, error) {
	m.mk(n)
	return &c16IObs{name: n}, nil
}
func (m *c16Meter) Int64ObservableGauge(n string, _ ...metric.Int64ObservableGaugeOption) (metric.Int64ObservableGauge, error) {
	m.mk(n)
	return &c16IObs{name: n}, nil
}
func (m *c16Meter) Float64ObservableCounter(n string, _ ...metric.Float64ObservableCounterOption) (metric.Float64ObservableCounter, error) {
	m.mk(n)
	return &c16FObs{name: n}, nil
}
func (m *c16Meter) Float64ObservableUpDownCounter(n string, _ ...metric.Float64ObservableUpDownCounterOption) (metric.Float64ObservableUpDownCounter, error) {
	m.mk(n)
	return &c16FObs{name: n}, nil
}
func (m *c16Meter) Float64ObservableGauge(n string, _ ...metric.Float64ObservableGaugeOption) (metric.Float64ObservableGauge, error) {
	m.mk(n)
	return &c16FObs{name: n}, nil
}

// a meter of the recording SDK that also remembers which instruments callbacks
// were registered for
type c16ObsMeter struct {
	c16Meter
	regInsts *[]metric.Observable
}

func (m *c16ObsMeter) RegisterCallback(f metric.Callback, insts ...metric.Observable) (metric.Registration, error) {
	*m.regInsts = append(*m.regInsts, insts...)
	return m.c16Meter.RegisterCallback(f, insts...)
}

type c16ObsSDK struct {
	*c16SDK
	regInsts []metric.Observable
}

func (s *c16ObsSDK) Meter(name string, o ...metric.MeterOption) metric.Meter {
	s.c16SDK.Meter(name, o...)
	return &c16ObsMeter{c16Meter{sdk: s.c16SDK}, &s.regInsts}
}

func c16MakeObservable(m metric.Meter, k int, name string) metric.Observable {
	switch k {
	case 0:
		i, _ := m.Int64ObservableCounter(name)
		return i
	case 1:
		i, _ := m.Int64ObservableUpDownCounter(name)
		return i
	case 2:
		i, _ := m.Int64ObservableGauge(name)
		return i
	case 3:
		i, _ := m.Float64ObservableCounter(name)
		return i
	case 4:
		i, _ := m.Float64ObservableUpDownCounter(name)
		return i
	default:
		i, _ := m.Float64ObservableGauge(name)
		return i
	}
}

func c16ObsName(o metric.Observable) string {
	switch x := o.(type) {
	case *c16IObs:
		return x.name
	case *c16FObs:
		return x.name
	}
	return "<not an SDK instrument>"
}

// ---- C16.kinds: the two synchronous float kinds not covered by C16.seq and the
// six observable kinds: created before or after installation, the SDK gets each
// exactly once, and a callback registered for an observable reaches the SDK
// with the SDK's own instrument
func HarnessC16Kinds() {
	mp := &meterProvider{}
	sdk := &c16ObsSDK{c16SDK: c16NewSDK()}
	m := mp.Meter("m")
	ctx := context.Background()
	if vndChoice(2) == 0 {
		// synchronous float kinds
		var rec func()
		if vndChoice(2) == 0 {
			i, _ := m.Float64UpDownCounter("i")
			rec = func() { i.Add(ctx, 1) }
		} else {
			i, _ := m.Float64Histogram("i")
			rec = func() { i.Record(ctx, 1) }
		}
		rec()
		mp.setDelegate(sdk)
		vndReach("sync")
		vndAssert(sdk.created["i"] == 1, "instrument-created-in-sdk-exactly-once")
		vndAssert(sdk.adds["i"] == 0, "measurements-before-installation-are-not-forwarded")
		rec()
		vndAssert(sdk.adds["i"] == 1, "instrument-forwards-after-installation")
		return
	}
	k := vndChoice(6)
	before := vndChoice(2) == 1 // the callback is registered before installation
	o := c16MakeObservable(m, k, "o")
	cb := func(context.Context, metric.Observer) error { return nil }
	var reg metric.Registration
	if before {
		reg, _ = m.RegisterCallback(cb, o)
	}
	mp.setDelegate(sdk)
	if !before {
		reg, _ = m.RegisterCallback(cb, o)
	}
	vndReach("observable")
	vndAssert(sdk.created["o"] == 1, "instrument-created-in-sdk-exactly-once")
	vndAssert(sdk.regCalls == 1, "each-callback-registered-with-sdk-exactly-once-unless-unregistered")
	vndAssert(len(sdk.regInsts) == 1 && c16ObsName(sdk.regInsts[0]) == "o", "callback-registered-for-the-sdk-instrument")
	reg.Unregister()
	vndAssert(sdk.callbacks == 0, "unregister-after-installation-reaches-sdk-once")
	// an observable created after installation goes straight to the SDK
	o2 := c16MakeObservable(mp.Meter("m2"), k, "p")
	m.RegisterCallback(cb, o2)
	vndAssert(sdk.created["p"] == 1 && len(sdk.regInsts) == 2 && c16ObsName(sdk.regInsts[1]) == "p", "instrument-created-after-installation-forwards")
}

// ---- C16.state: the package-level API (TracerProvider / SetTracerProvider,
// MeterProvider / SetMeterProvider, TextMapPropagator / SetTextMapPropagator):
// any sequence of self-assignments (documented no-ops), early use and one real
// installation; everything obtained before the installation forwards after it
type c16Prop struct{ injects int }

func (p *c16Prop) Inject(context.Context, propagation.TextMapCarrier) { p.injects++ }
func (p *c16Prop) Extract(ctx context.Context, _ propagation.TextMapCarrier) context.Context {
	return ctx
}
func (p *c16Prop) Fields() []string { return nil }

func c16ResetState() {
	globalTracer = defaultTracerValue()
	globalPropagators = defaultPropagatorsValue()
	globalMeterProvider = defaultMeterProvider()
	delegateTraceOnce = sync.Once{}
	delegateTextMapPropagatorOnce = sync.Once{}
	delegateMeterOnce = sync.Once{}
}

func HarnessC16State() {
	c16ResetState()
	defer c16ResetState()
	tsdk, msdk, psdk := &c16TP{}, c16NewSDK(), &c16Prop{}
	var tracers []trace.Tracer
	var counters []metric.Int64Counter
	var props []propagation.TextMapPropagator
	installedT, installedM, installedP := false, false, false
	steps := vndParam("STEPS", 4)
	for s := 0; s < steps; s++ {
		switch vndChoice(9) {
		case 0: // obtain a tracer through the API
			tracers = append(tracers, TracerProvider().Tracer("t"))
		case 1: // documented no-op
			SetTracerProvider(TracerProvider())
		case 2:
			if installedT {
				return
			}
			SetTracerProvider(tsdk)
			installedT = true
		case 3:
			c, err := MeterProvider().Meter("m").Int64Counter("c")
			vndAssert(err == nil, "instrument-created")
			counters = append(counters, c)
		case 4:
			SetMeterProvider(MeterProvider())
		case 5:
			if installedM {
				return
			}
			SetMeterProvider(msdk)
			installedM = true
		case 6:
			props = append(props, TextMapPropagator())
		case 7:
			SetTextMapPropagator(TextMapPropagator())
		case 8:
			if installedP {
				return
			}
			SetTextMapPropagator(psdk)
			installedP = true
		}
	}
	vndReach("sequence-done")
	if installedT {
		vndReach("tracer-installed")
		vndAssert(TracerProvider() == trace.TracerProvider(tsdk), "installed-tracer-provider-is-returned")
		for _, t := range tracers {
			before := tsdk.starts
			t.Start(context.Background(), "s")
			vndAssert(tsdk.starts == before+1, "spans-started-after-installation-reach-the-sdk")
		}
	}
	if installedM {
		vndReach("meter-installed")
		vndAssert(MeterProvider() == metric.MeterProvider(msdk), "installed-meter-provider-is-returned")
		for _, c := range counters {
			before := msdk.adds["c"]
			c.Add(context.Background(), 1)
			vndAssert(msdk.adds["c"] == before+1, "measurements-after-installation-reach-the-sdk")
		}
	}
	if installedP {
		vndReach("propagator-installed")
		for _, p := range props {
			before := psdk.injects
			p.Inject(context.Background(), propagation.MapCarrier{})
			vndAssert(psdk.injects == before+1, "propagator-obtained-earlier-forwards-after-installation")
		}
	}
}

// ---- C16.observe: observations made in callbacks reach the SDK with the SDK's
// own instruments, for instruments created before and after the installation
// and callbacks registered before or after it, in either argument order
func HarnessC16Observe() {
	sdk := c16NewSDK()
	mp := &meterProvider{}
	m := mp.Meter("m")
	pre, _ := m.Int64ObservableCounter("pre")
	cb := func(pre metric.Int64Observable, post metric.Int64Observable) metric.Callback {
		return func(_ context.Context, o metric.Observer) error {
			o.ObserveInt64(pre, 1)
			if post != nil {
				o.ObserveInt64(post, 2)
			}
			return nil
		}
	}
	early := vndChoice(2) == 1
	if early {
		// registered before the installation (only the early instrument exists)
		_, err := m.RegisterCallback(cb(pre, nil), pre)
		vndAssert(err == nil, "register-no-error")
	}
	mp.setDelegate(sdk)
	post, _ := m.Int64ObservableGauge("post")
	late := vndChoice(3)
	switch late {
	case 1:
		_, err := m.RegisterCallback(cb(pre, post), pre, post)
		vndAssert(err == nil, "register-no-error")
	case 2:
		_, err := m.RegisterCallback(cb(pre, post), post, pre)
		vndAssert(err == nil, "register-no-error")
	}
	sdk.collect()
	vndReach("collected")
	wantPre, wantPost := 0, 0
	if early {
		wantPre++
	}
	if late != 0 {
		wantPre++
		wantPost++
	}
	vndAssert(sdk.foreign == 0, "observations-reach-the-sdk-with-its-own-instruments")
	vndAssert(sdk.observed["pre"] == wantPre && sdk.observed["post"] == wantPost, "every-observation-made-after-installation-reaches-the-sdk")
}

// ---- C16.stateconc: SetMeterProvider / SetTracerProvider called from two
// goroutines: once either call has returned, instruments and tracers obtained
// before forward (installation has completed for the caller that returned)
func HarnessC16StateConc() {
	vndRaceOn(true)
	c16ResetState()
	defer c16ResetState()
	msdk, tsdk := c16NewSDK(), &c16TP{}
	c, err := MeterProvider().Meter("m").Int64Counter("c")
	vndAssert(err == nil, "instrument-created")
	tr := TracerProvider().Tracer("t")
	metrics := vndChoice(2) == 1
	var wg sync.WaitGroup
	wg.Add(2)
	for i := 0; i < 2; i++ {
		go func() {
			defer wg.Done()
			if metrics {
				SetMeterProvider(msdk)
				c.Add(context.Background(), 1)
			} else {
				SetTracerProvider(tsdk)
				tr.Start(context.Background(), "s")
			}
		}()
	}
	wg.Wait()
	vndReach("joined")
	if metrics {
		vndAssert(msdk.adds["c"] == 2, "measurements-after-installation-reach-the-sdk")
	} else {
		vndAssert(tsdk.starts == 2, "spans-started-after-installation-reach-the-sdk")
	}
}
