package trace

import (
	"context"
	"errors"
	"io"
	rt "runtime/trace"
	"sync"

	"go.opentelemetry.io/otel/attribute"
	"go.opentelemetry.io/otel/codes"
	"go.opentelemetry.io/otel/sdk/instrumentation"
	"go.opentelemetry.io/otel/trace"
)

type c10Recorder struct {
	mu    sync.Mutex
	ended []ReadOnlySpan
}

func (r *c10Recorder) OnStart(context.Context, ReadWriteSpan) {}
func (r *c10Recorder) OnEnd(s ReadOnlySpan) {
	r.mu.Lock()
	r.ended = append(r.ended, s)
	r.mu.Unlock()
}
func (r *c10Recorder) Shutdown(context.Context) error   { return nil }
func (r *c10Recorder) ForceFlush(context.Context) error { return nil }

func c10Span(withTaskEnd bool) (*recordingSpan, *c10Recorder, *tracer) {
	rec := &c10Recorder{}
	limits := SpanLimits{AttributeValueLengthLimit: -1, AttributeCountLimit: -1, EventCountLimit: -1, LinkCountLimit: -1,
		AttributePerEventCountLimit: -1, AttributePerLinkCountLimit: -1}
	p := &TracerProvider{spanLimits: limits, sampler: AlwaysSample(), idGenerator: &c10IDs{}}
	sps := spanProcessorStates{newSpanProcessorState(rec)}
	p.spanProcessors.Store(&sps)
	tr := &tracer{provider: p}
	sc := trace.NewSpanContext(trace.SpanContextConfig{TraceID: trace.TraceID{1}, SpanID: trace.SpanID{2}, TraceFlags: trace.FlagsSampled})
	cfg := trace.NewSpanStartConfig()
	s := tr.newRecordingSpan(trace.SpanContext{}, sc, "span", SamplingResult{Decision: RecordAndSample}, &cfg)
	if withTaskEnd {
		// runtime/trace enabled: End hands over to the execution tracer outside the lock
		s.executionTracerTaskEnd = func() { vndYield() }
	}
	return s, rec, tr
}

type c10IDs struct{ n byte }

func (g *c10IDs) NewIDs(context.Context) (trace.TraceID, trace.SpanID) {
	g.n++
	return trace.TraceID{g.n}, trace.SpanID{g.n}
}
func (g *c10IDs) NewSpanID(context.Context, trace.TraceID) trace.SpanID {
	g.n++
	return trace.SpanID{g.n}
}

// C10.endend: N goroutines call End concurrently
func HarnessC10EndEnd() {
	vndRaceOn(true)
	s, rec, _ := c10Span(vndChoice(2) == 1)
	n := vndParam("T", 2)
	var wg sync.WaitGroup
	wg.Add(n)
	for i := 0; i < n; i++ {
		go func() {
			defer wg.Done()
			s.End()
			vndAssert(!s.IsRecording(), "not-recording-once-end-returned")
		}()
	}
	wg.Wait()
	vndReach("joined")
	vndAssert(len(rec.ended) == 1, "span-delivered-to-processor-exactly-once")
	if len(rec.ended) >= 1 {
		vndAssert(rec.ended[0].EndTime().Equal(s.EndTime()), "single-end-time")
	}
}

// demonstrator / regression for the same scenario with runtime/trace on
func HarnessC10EndEndTraced() {
	vndRaceOn(true)
	s, rec, _ := c10Span(true)
	var wg sync.WaitGroup
	wg.Add(2)
	for i := 0; i < 2; i++ {
		go func() {
			defer wg.Done()
			s.End()
		}()
	}
	wg.Wait()
	vndReach("joined")
	vndAssert(len(rec.ended) == 1, "span-delivered-to-processor-exactly-once-with-execution-tracer")
}

// C10.mutate: End races one mutator; the mutation is entirely in the
// snapshot or entirely absent, and the snapshot never changes afterwards
func HarnessC10EndMutate() {
	vndRaceOn(true)
	s, rec, tr := c10Span(vndChoice(2) == 1)
	op := vndChoice(vndParam("OPS", 6))
	v := vndI64()
	var wg sync.WaitGroup
	wg.Add(2)
	childReturnedBeforeEnd := false
	endStarted := false
	go func() {
		defer wg.Done()
		vndGhostStore(&endStarted, true)
		s.End()
	}()
	go func() {
		defer wg.Done()
		switch op {
		case 0:
			s.SetAttributes(attribute.Int64("a", v), attribute.Int64("b", v))
		case 1:
			s.AddEvent("e", trace.WithAttributes(attribute.Int64("x", v), attribute.Int64("y", v)))
		case 2:
			s.SetStatus(codes.Error, "boom")
		case 3:
			s.SetName("renamed")
		case 4:
			s.AddLink(trace.Link{SpanContext: s.spanContext, Attributes: []attribute.KeyValue{attribute.Int64("l", v)}})
		case 5:
			_, child := tr.Start(trace.ContextWithSpan(context.Background(), s), "child")
			_ = child
			vndGhostStore(&childReturnedBeforeEnd, !vndGhostLoad(&endStarted))
		}
	}()
	wg.Wait()
	vndReach("joined")
	vndAssert(len(rec.ended) == 1, "span-delivered-to-processor-exactly-once")
	if len(rec.ended) != 1 {
		return
	}
	ro := rec.ended[0]
	switch op {
	case 0:
		as := ro.Attributes()
		vndAssert(len(as) == 0 || len(as) == 2, "attributes-mutation-all-or-nothing")
		if len(as) == 2 {
			vndReach("mutation-present")
			vndAssert(vndAnd(as[0].Value.AsInt64() == v, as[1].Value.AsInt64() == v), "attributes-mutation-complete")
		} else {
			vndReach("mutation-absent")
		}
	case 1:
		es := ro.Events()
		vndAssert(len(es) <= 1, "event-mutation-all-or-nothing")
		if len(es) == 1 {
			vndAssert(len(es[0].Attributes) == 2, "event-mutation-complete")
		}
	case 2:
		st := ro.Status()
		vndAssert((st.Code == codes.Error && st.Description == "boom") || (st.Code == codes.Unset && st.Description == ""), "status-mutation-all-or-nothing")
	case 3:
		vndAssert(ro.Name() == "span" || ro.Name() == "renamed", "name-mutation-all-or-nothing")
	case 4:
		ls := ro.Links()
		vndAssert(len(ls) <= 1, "link-mutation-all-or-nothing")
		if len(ls) == 1 {
			vndAssert(len(ls[0].Attributes) == 1, "link-mutation-complete")
		}
	case 5:
		vndAssert(ro.ChildSpanCount() <= 1, "child-count-at-most-started")
		if childReturnedBeforeEnd {
			vndAssert(ro.ChildSpanCount() == 1, "child-count-exact-for-children-started-before-end")
		}
	}
	// the snapshot never changes afterwards: further mutators are no-ops
	nAttr, nEv, nLn, name, code := len(ro.Attributes()), len(ro.Events()), len(ro.Links()), ro.Name(), ro.Status().Code
	s.SetAttributes(attribute.Int64("late", 1))
	s.AddEvent("late")
	s.SetName("late")
	s.SetStatus(codes.Ok, "")
	s.AddLink(trace.Link{SpanContext: s.spanContext})
	vndAssert(len(ro.Attributes()) == nAttr && len(ro.Events()) == nEv && len(ro.Links()) == nLn && ro.Name() == name && ro.Status().Code == code, "snapshot-never-changes-after-end")
	vndAssert(!s.IsRecording(), "not-recording-once-end-returned")
}

// C10.provider: processors registered / unregistered while a span ends
func HarnessC10ProviderRace() {
	vndRaceOn(true)
	rec1, rec2 := &c10Recorder{}, &c10Recorder{}
	p := &TracerProvider{namedTracer: make(map[instrumentation.Scope]*tracer), sampler: AlwaysSample(), idGenerator: &c10IDs{}, spanLimits: NewSpanLimits()}
	p.spanProcessors.Store(&spanProcessorStates{})
	p.RegisterSpanProcessor(rec1)
	tr := p.Tracer("t")
	_, span := tr.Start(context.Background(), "s")
	var wg sync.WaitGroup
	wg.Add(2)
	go func() {
		defer wg.Done()
		span.End()
	}()
	go func() {
		defer wg.Done()
		if vndChoice(2) == 0 {
			p.RegisterSpanProcessor(rec2)
		} else {
			p.UnregisterSpanProcessor(rec1)
		}
	}()
	wg.Wait()
	vndReach("joined")
	vndAssert(len(rec1.ended) <= 1, "processor-sees-span-at-most-once")
	vndAssert(len(rec2.ended) <= 1, "processor-sees-span-at-most-once")
}

// ---- C10.startend: Go execution tracing enabled; a processor hands the span
// it receives in OnStart to another goroutine that ends it while Start is
// still finishing (runtimeTrace stores the task's End function): no data race,
// delivered exactly once
var c10Tracing bool

// models of runtime/trace used inside the engine (natively the real execution
// tracer is started by the harness)
func c10TraceEnabled() bool { return c10Tracing }
func c10NewTask(ctx context.Context, name string) (context.Context, *rt.Task) {
	return ctx, new(rt.Task)
}
func c10TaskEnd(t *rt.Task) { vndYield() }

type c10HandOff struct {
	c10Recorder
	wg sync.WaitGroup
}

func (p *c10HandOff) OnStart(_ context.Context, s ReadWriteSpan) {
	p.wg.Add(1)
	go func() {
		defer p.wg.Done()
		s.End()
	}()
}

func HarnessC10StartEndTraced() {
	vndRaceOn(true)
	c10Tracing = true
	if !vndSymbolic() {
		if rt.Start(io.Discard) == nil {
			defer rt.Stop()
		}
	}
	rec := &c10HandOff{}
	limits := SpanLimits{AttributeValueLengthLimit: -1, AttributeCountLimit: -1, EventCountLimit: -1, LinkCountLimit: -1,
		AttributePerEventCountLimit: -1, AttributePerLinkCountLimit: -1}
	p := &TracerProvider{spanLimits: limits, sampler: AlwaysSample(), idGenerator: &c10IDs{}}
	sps := spanProcessorStates{newSpanProcessorState(rec)}
	p.spanProcessors.Store(&sps)
	tr := &tracer{provider: p}
	_, span := tr.Start(context.Background(), "s")
	if vndChoice(2) == 1 {
		span.End()
	}
	rec.wg.Wait()
	c10Tracing = false
	vndReach("joined")
	vndAssert(len(rec.ended) == 1, "span-delivered-to-processor-exactly-once-with-execution-tracer")
	vndAssert(!span.IsRecording(), "not-recording-once-end-returned")
}

// ---- C10.endpanic: End deferred by a panicking goroutine (the panic is
// recorded as an exception event, with or without a stack trace) racing a plain
// End: delivered exactly once, single end time
func HarnessC10EndPanicEnd() {
	vndRaceOn(true)
	s, rec, _ := c10Span(false)
	withStack := vndChoice(2) == 1
	var wg sync.WaitGroup
	wg.Add(2)
	go func() {
		defer wg.Done()
		defer func() { recover() }() // End re-panics after recording
		func() {
			defer s.End(trace.WithStackTrace(withStack))
			panic(errC10)
		}()
	}()
	go func() {
		defer wg.Done()
		s.End()
	}()
	wg.Wait()
	vndReach("joined")
	vndAssert(len(rec.ended) == 1, "span-delivered-to-processor-exactly-once")
	vndAssert(!s.IsRecording(), "not-recording-once-end-returned")
}

var errC10 = errors.New("boom")

// ---- C10.atlimit: a span at its attribute limit (updates of existing keys are
// applied in place): End racing SetAttributes on the existing key; the value the
// processor saw in OnEnd is the value the snapshot holds ever after
type c10ValueRecorder struct {
	c10Recorder
	seen []int64
}

func (r *c10ValueRecorder) OnEnd(s ReadOnlySpan) {
	v := int64(-1)
	if as := s.Attributes(); len(as) == 1 {
		v = as[0].Value.AsInt64()
	}
	r.mu.Lock()
	r.ended = append(r.ended, s)
	r.seen = append(r.seen, v)
	r.mu.Unlock()
}

func HarnessC10EndMutateAtLimit() {
	vndRaceOn(true)
	rec := &c10ValueRecorder{}
	limits := SpanLimits{AttributeValueLengthLimit: -1, AttributeCountLimit: 1, EventCountLimit: -1, LinkCountLimit: -1,
		AttributePerEventCountLimit: -1, AttributePerLinkCountLimit: -1}
	p := &TracerProvider{spanLimits: limits, sampler: AlwaysSample(), idGenerator: &c10IDs{}}
	sps := spanProcessorStates{newSpanProcessorState(rec)}
	p.spanProcessors.Store(&sps)
	tr := &tracer{provider: p}
	sc := trace.NewSpanContext(trace.SpanContextConfig{TraceID: trace.TraceID{1}, SpanID: trace.SpanID{2}, TraceFlags: trace.FlagsSampled})
	cfg := trace.NewSpanStartConfig()
	s := tr.newRecordingSpan(trace.SpanContext{}, sc, "span", SamplingResult{Decision: RecordAndSample}, &cfg)
	s.SetAttributes(attribute.Int64("a", 1))
	var wg sync.WaitGroup
	wg.Add(2)
	go func() { defer wg.Done(); s.End() }()
	go func() {
		defer wg.Done()
		s.SetAttributes(attribute.Int64("a", 2), attribute.Int64("b", 3))
	}()
	wg.Wait()
	vndReach("joined")
	vndAssert(len(rec.ended) == 1 && len(rec.seen) == 1, "span-delivered-to-processor-exactly-once")
	if len(rec.ended) != 1 {
		return
	}
	as := rec.ended[0].Attributes()
	vndAssert(len(as) == 1, "never-more-attributes-than-the-limit")
	if len(as) == 1 {
		vndAssert(rec.seen[0] == 1 || rec.seen[0] == 2, "attributes-mutation-all-or-nothing")
		vndAssert(as[0].Value.AsInt64() == rec.seen[0], "snapshot-never-changes-after-end")
	}
}

// ---- C10.registerrace: RegisterSpanProcessor racing another Register or an
// Unregister: afterwards a span is delivered to exactly the processors that are
// registered (no registration lost, no unregistered processor resurrected)
func HarnessC10RegisterRace() {
	vndRaceOn(true)
	a, b, c := &c10Recorder{}, &c10Recorder{}, &c10Recorder{}
	p := &TracerProvider{namedTracer: make(map[instrumentation.Scope]*tracer), sampler: AlwaysSample(), idGenerator: &c10IDs{}, spanLimits: NewSpanLimits()}
	p.spanProcessors.Store(&spanProcessorStates{})
	p.RegisterSpanProcessor(a)
	other := vndChoice(2)
	var wg sync.WaitGroup
	wg.Add(2)
	go func() { defer wg.Done(); p.RegisterSpanProcessor(b) }()
	go func() {
		defer wg.Done()
		if other == 0 {
			p.RegisterSpanProcessor(c)
		} else {
			p.UnregisterSpanProcessor(a)
		}
	}()
	wg.Wait()
	_, span := p.Tracer("t").Start(context.Background(), "s")
	span.End()
	vndReach("joined")
	wantA, wantC := 1, 1
	if other == 1 {
		wantA, wantC = 0, 0
	}
	vndAssert(len(a.ended) == wantA && len(b.ended) == 1 && len(c.ended) == wantC, "span-delivered-to-exactly-the-registered-processors")
}
