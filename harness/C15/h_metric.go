package metric

import (
	"sync"
	"time"
	"context"
	"errors"

	"go.opentelemetry.io/otel/metric/noop"
	"go.opentelemetry.io/otel/sdk/metric/exemplar"
	"go.opentelemetry.io/otel/sdk/metric/metricdata"
	"go.opentelemetry.io/otel/sdk/resource"
)

func c15MeterProvider(r Reader) *MeterProvider {
	conf := config{res: resource.Empty(), readers: []Reader{r}, exemplarFilter: exemplar.AlwaysOffFilter}
	flush, sdown := conf.readerSignals()
	return &MeterProvider{pipes: newPipelines(conf.res, conf.readers, conf.views, conf.exemplarFilter), forceFlush: flush, shutdown: sdown}
}

// C15.aftershutdown (metric): after Shutdown has returned (with or without an
// error) the provider hands out no-op meters and the reader reports the
// documented shutdown error
func HarnessC15MetricAfterShutdown() {
	r := NewManualReader()
	mp := c15MeterProvider(r)
	m := mp.Meter("m")
	c, err := m.Int64Counter("c")
	vndAssert(err == nil, "instrument-created")
	c.Add(context.Background(), 1)
	readerShutDownFirst := vndChoice(2) == 1
	if readerShutDownFirst {
		// the reader was shut down directly: the provider's Shutdown then reports an error
		vndAssert(r.Shutdown(context.Background()) == nil, "reader-shutdown-first-time-nil")
	}
	serr := mp.Shutdown(context.Background())
	if readerShutDownFirst {
		vndReach("shutdown-with-error")
		vndAssert(errors.Is(serr, ErrReaderShutdown), "provider-shutdown-reports-reader-error")
	} else {
		vndReach("shutdown-clean")
		vndAssert(serr == nil, "provider-shutdown-nil")
	}
	// afterwards
	_, isNoop := mp.Meter("late").(noop.Meter)
	vndAssert(isNoop, "meter-after-shutdown-is-noop")
	var rm metricdata.ResourceMetrics
	cerr := r.Collect(context.Background(), &rm)
	vndAssert(errors.Is(cerr, ErrReaderShutdown), "collect-after-shutdown-returns-documented-error")
	vndAssert(len(rm.ScopeMetrics) == 0, "nothing-collected-after-shutdown")
	vndAssert(errors.Is(mp.Shutdown(context.Background()), ErrReaderShutdown), "second-shutdown-returns-documented-error")
	vndAssert(errors.Is(r.Shutdown(context.Background()), ErrReaderShutdown), "reader-second-shutdown-returns-documented-error")
	c.Add(context.Background(), 1) // harmless
	ferr := mp.ForceFlush(context.Background())
	vndAssert(ferr == nil || errors.Is(ferr, ErrReaderShutdown), "flush-after-shutdown-harmless")
}

// exporter model for the periodic reader
type c15Exporter struct {
	mu        sync.Mutex
	shutdowns int
	exports   int
	late      bool // an export began after a Shutdown of the provider had returned
	stopped   bool
}

func (e *c15Exporter) Temporality(InstrumentKind) metricdata.Temporality { return metricdata.CumulativeTemporality }
func (e *c15Exporter) Aggregation(k InstrumentKind) Aggregation         { return DefaultAggregationSelector(k) }
func (e *c15Exporter) ForceFlush(context.Context) error                 { return nil }
func (e *c15Exporter) Export(context.Context, *metricdata.ResourceMetrics) error {
	e.mu.Lock()
	e.exports++
	if e.stopped {
		e.late = true
	}
	e.mu.Unlock()
	return nil
}
func (e *c15Exporter) Shutdown(context.Context) error {
	e.mu.Lock()
	e.shutdowns++
	e.mu.Unlock()
	return nil
}

// C15.periodic: a MeterProvider with a periodic reader shut down from two
// goroutines (the ticker may fire at any point): the exporter is shut down
// exactly once, one call returns nil and the other the documented error,
// nothing is exported afterwards and later calls are harmless
func HarnessC15PeriodicOnce() {
	e := &c15Exporter{}
	r := NewPeriodicReader(e, WithInterval(time.Second), WithTimeout(time.Hour))
	mp := c15MeterProvider(r)
	c, err := mp.Meter("m").Int64Counter("c")
	vndAssert(err == nil, "instrument-created")
	c.Add(context.Background(), 1)
	var errs [2]error
	var wg sync.WaitGroup
	wg.Add(2)
	for i := 0; i < 2; i++ {
		go func(i int) {
			defer wg.Done()
			errs[i] = mp.Shutdown(context.Background())
		}(i)
	}
	wg.Wait()
	e.mu.Lock()
	e.stopped = true
	sd := e.shutdowns
	e.mu.Unlock()
	vndReach("joined")
	vndAssert(sd == 1, "exporter-shut-down-exactly-once")
	nils := 0
	for _, er := range errs {
		if er == nil {
			nils++
		} else {
			vndAssert(errors.Is(er, ErrReaderShutdown), "repeated-shutdown-returns-the-documented-error")
		}
	}
	vndAssert(nils == 1, "exactly-one-shutdown-call-succeeds")
	// afterwards
	c.Add(context.Background(), 1)
	vndAssert(errors.Is(mp.ForceFlush(context.Background()), ErrReaderShutdown), "flush-after-shutdown-returns-the-documented-error")
	var rm metricdata.ResourceMetrics
	vndAssert(errors.Is(r.Collect(context.Background(), &rm), ErrReaderShutdown), "collect-after-shutdown-returns-documented-error")
	vndAssert(errors.Is(mp.Shutdown(context.Background()), ErrReaderShutdown), "second-shutdown-returns-documented-error")
	e.mu.Lock()
	late, sd2 := e.late, e.shutdowns
	e.mu.Unlock()
	vndAssert(!late, "nothing-exported-after-shutdown-returned")
	vndAssert(sd2 == 1, "exporter-shut-down-exactly-once")
}

// C15.periodic-cancelled: Shutdown with an already-cancelled context while an
// interval collection may be in flight: whatever Shutdown returns, no export
// begins after it has returned, the exporter is shut down exactly once, and a
// later Shutdown is a harmless documented error
func HarnessC15PeriodicCancelled() {
	e := &c15Exporter{}
	r := NewPeriodicReader(e, WithInterval(time.Second), WithTimeout(time.Hour))
	mp := c15MeterProvider(r)
	c, err := mp.Meter("m").Int64Counter("c")
	vndAssert(err == nil, "instrument-created")
	c.Add(context.Background(), 1)
	ctx, cancel := context.WithCancel(context.Background())
	cancel()
	vndYield() // the interval may elapse here
	mp.Shutdown(ctx)
	e.mu.Lock()
	e.stopped = true
	e.mu.Unlock()
	vndReach("shutdown-returned")
	vndYield()
	c.Add(context.Background(), 1)
	vndAssert(errors.Is(mp.Shutdown(context.Background()), ErrReaderShutdown), "second-shutdown-returns-documented-error")
	e.mu.Lock()
	late, sd := e.late, e.shutdowns
	e.mu.Unlock()
	vndAssert(!late, "nothing-exported-after-shutdown-returned")
	vndAssert(sd == 1, "exporter-shut-down-exactly-once")
}

// C15.tworeaders: MeterProvider.Shutdown / ForceFlush reach every registered
// reader, whatever the state of the others and of the context: each reader is
// shut down exactly once
func HarnessC15TwoReaders() {
	r1, r2 := NewManualReader(), NewManualReader()
	conf := config{res: resource.Empty(), readers: []Reader{r1, r2}, exemplarFilter: exemplar.AlwaysOffFilter}
	flush, sdown := conf.readerSignals()
	mp := &MeterProvider{pipes: newPipelines(conf.res, conf.readers, conf.views, conf.exemplarFilter), forceFlush: flush, shutdown: sdown}
	c, err := mp.Meter("m").Int64Counter("c")
	vndAssert(err == nil, "instrument-created")
	c.Add(context.Background(), 1)
	firstDown := vndChoice(2) == 1
	if firstDown {
		vndAssert(r1.Shutdown(context.Background()) == nil, "reader-shutdown-first-time-nil")
	}
	ctx := context.Background()
	if vndChoice(2) == 1 {
		cctx, cancel := context.WithCancel(ctx)
		cancel()
		ctx = cctx
	}
	mp.Shutdown(ctx)
	vndReach("shutdown-returned")
	var rm metricdata.ResourceMetrics
	vndAssert(errors.Is(r1.Collect(context.Background(), &rm), ErrReaderShutdown), "every-reader-is-shut-down")
	vndAssert(errors.Is(r2.Collect(context.Background(), &rm), ErrReaderShutdown), "every-reader-is-shut-down")
	vndAssert(errors.Is(r2.Shutdown(context.Background()), ErrReaderShutdown), "reader-second-shutdown-returns-documented-error")
}
