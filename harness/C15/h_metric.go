package metric

import (
	"context"
	"errors"

	"go.opentelemetry.io/otel/metric/noop"
	"go.opentelemetry.io/otel/sdk/metric/exemplar"
	"go.opentelemetry.io/otel/sdk/metric/metricdata"
	"go.opentelemetry.io/otel/sdk/resource"
)

func c15MeterProvider(r Reader) *MeterProvider {
	conf := config{res: resource.Empty(), readers: []Reader{r}, exemplarFilter: exemplar.AlwaysOffFilter}
	flush, sdown := conf.readerSignals()
	return &MeterProvider{pipes: newPipelines(conf.res, conf.readers, conf.views, conf.exemplarFilter), forceFlush: flush, shutdown: sdown}
}

// C15.aftershutdown (metric): after Shutdown has returned (with or without an
// error) the provider hands out no-op meters and the reader reports the
// documented shutdown error
func HarnessC15MetricAfterShutdown() {
	r := NewManualReader()
	mp := c15MeterProvider(r)
	m := mp.Meter("m")
	c, err := m.Int64Counter("c")
	vndAssert(err == nil, "instrument-created")
	c.Add(context.Background(), 1)
	readerShutDownFirst := vndChoice(2) == 1
	if readerShutDownFirst {
		// the reader was shut down directly: the provider's Shutdown then reports an error
		vndAssert(r.Shutdown(context.Background()) == nil, "reader-shutdown-first-time-nil")
	}
	serr := mp.Shutdown(context.Background())
	if readerShutDownFirst {
		vndReach("shutdown-with-error")
		vndAssert(errors.Is(serr, ErrReaderShutdown), "provider-shutdown-reports-reader-error")
	} else {
		vndReach("shutdown-clean")
		vndAssert(serr == nil, "provider-shutdown-nil")
	}
	// afterwards
	_, isNoop := mp.Meter("late").(noop.Meter)
	vndAssert(isNoop, "meter-after-shutdown-is-noop")
	var rm metricdata.ResourceMetrics
	cerr := r.Collect(context.Background(), &rm)
	vndAssert(errors.Is(cerr, ErrReaderShutdown), "collect-after-shutdown-returns-documented-error")
	vndAssert(len(rm.ScopeMetrics) == 0, "nothing-collected-after-shutdown")
	vndAssert(errors.Is(mp.Shutdown(context.Background()), ErrReaderShutdown), "second-shutdown-returns-documented-error")
	vndAssert(errors.Is(r.Shutdown(context.Background()), ErrReaderShutdown), "reader-second-shutdown-returns-documented-error")
	c.Add(context.Background(), 1) // harmless
	ferr := mp.ForceFlush(context.Background())
	vndAssert(ferr == nil || errors.Is(ferr, ErrReaderShutdown), "flush-after-shutdown-harmless")
}
