package trace

import (
	"context"
	"sync"
	"time"

	"go.opentelemetry.io/otel/sdk/instrumentation"
	"go.opentelemetry.io/otel/trace"
)

type c15Proc struct {
	mu        sync.Mutex
	id        int
	started   int
	ended     int
	shutdowns int
	flushes   int
}

func (r *c15Proc) OnStart(context.Context, ReadWriteSpan) { r.mu.Lock(); r.started++; r.mu.Unlock() }
func (r *c15Proc) OnEnd(ReadOnlySpan)                     { r.mu.Lock(); r.ended++; r.mu.Unlock() }
func (r *c15Proc) Shutdown(context.Context) error         { r.mu.Lock(); r.shutdowns++; r.mu.Unlock(); return nil }
func (r *c15Proc) ForceFlush(context.Context) error       { r.mu.Lock(); r.flushes++; r.mu.Unlock(); return nil }

type c15IDs struct{ n byte }

func (g *c15IDs) NewIDs(context.Context) (trace.TraceID, trace.SpanID) {
	g.n++
	return trace.TraceID{g.n}, trace.SpanID{g.n}
}
func (g *c15IDs) NewSpanID(context.Context, trace.TraceID) trace.SpanID { g.n++; return trace.SpanID{g.n} }

func c15Provider() *TracerProvider {
	p := &TracerProvider{namedTracer: make(map[instrumentation.Scope]*tracer), sampler: AlwaysSample(), idGenerator: &c15IDs{}, spanLimits: NewSpanLimits()}
	p.spanProcessors.Store(&spanProcessorStates{})
	return p
}

// C15.members: K registrations / unregistrations over 3 processors (one may
// never be registered; double registration allowed), then one span
func HarnessC15Members() {
	p := c15Provider()
	procs := []*c15Proc{{id: 0}, {id: 1}, {id: 2}}
	var model []int // registered processor ids, in order (DESIGN A.8)
	var wantShutdown, regs [3]int
	k := vndParam("K", 3)
	for i := 0; i < k; i++ {
		pi := vndChoice(3)
		if vndChoice(2) == 0 {
			p.RegisterSpanProcessor(procs[pi])
			model = append(model, pi)
			regs[pi]++
		} else {
			found := -1
			for j := range model {
				if model[j] == pi {
					found = j // the last matching entry
				}
			}
			p.UnregisterSpanProcessor(procs[pi])
			if found >= 0 {
				model = append(model[:found:found], model[found+1:]...)
				wantShutdown[pi] = 1
				vndReach("unregistered-known")
			} else {
				vndReach("unregistered-unknown")
			}
		}
	}
	_, span := p.Tracer("t").Start(context.Background(), "s")
	span.End()
	var want [3]int
	for _, id := range model {
		want[id]++
	}
	for i := range procs {
		vndAssert(procs[i].started == want[i], "onstart-delivered-to-exactly-the-registered-processors")
		vndAssert(procs[i].ended == want[i], "onend-delivered-to-exactly-the-registered-processors")
		if regs[i] <= 1 {
			// C15 states single shutdown for a processor "registered once"; each
			// registration of a processor registered several times has its own life cycle
			vndAssert(procs[i].shutdowns <= 1, "processor-shut-down-at-most-once")
		}
		if regs[i] <= 1 && wantShutdown[i] == 1 && want[i] == 0 {
			vndAssert(procs[i].shutdowns == 1, "unregistered-processor-shut-down-exactly-once")
		}
		if wantShutdown[i] == 0 {
			vndAssert(procs[i].shutdowns == 0, "registered-processor-not-shut-down")
		}
	}
}

// C15.aftershutdown (trace)
func HarnessC15TraceAfterShutdown() {
	p := c15Provider()
	a, b := &c15Proc{id: 0}, &c15Proc{id: 1}
	p.RegisterSpanProcessor(a)
	p.RegisterSpanProcessor(b)
	tr := p.Tracer("t")
	_, open := tr.Start(context.Background(), "open")
	err := p.Shutdown(context.Background())
	vndAssert(err == nil, "shutdown-returns-nil")
	vndAssert(a.shutdowns == 1 && b.shutdowns == 1, "each-processor-shut-down-exactly-once")
	endedBefore := a.ended + b.ended
	startedBefore := a.started + b.started
	switch vndChoice(7) {
	case 0:
		_, s := p.Tracer("t2").Start(context.Background(), "late")
		vndAssert(!s.IsRecording(), "tracer-after-shutdown-is-noop")
		s.End()
	case 1:
		vndAssert(p.Shutdown(context.Background()) == nil, "second-shutdown-harmless")
	case 2:
		vndAssert(p.ForceFlush(context.Background()) == nil, "flush-after-shutdown-harmless")
	case 3:
		p.RegisterSpanProcessor(&c15Proc{id: 2})
	case 4:
		p.UnregisterSpanProcessor(a)
	case 5:
		open.End() // a span started before shutdown ends afterwards
	case 6:
		_, s := tr.Start(context.Background(), "late-on-old-tracer")
		s.End()
	}
	vndReach("after-shutdown")
	vndAssert(a.shutdowns == 1 && b.shutdowns == 1, "each-processor-shut-down-exactly-once")
	vndAssert(a.ended+b.ended == endedBefore, "nothing-delivered-after-shutdown")
	vndAssert(a.started+b.started == startedBefore, "nothing-started-after-shutdown")
}

// C15.nil: processors built around a nil exporter never panic or block
func HarnessC15NilSimple() {
	ssp := NewSimpleSpanProcessor(nil)
	p := c15Provider()
	p.RegisterSpanProcessor(ssp)
	_, s := p.Tracer("t").Start(context.Background(), "s")
	s.End()
	vndAssert(ssp.ForceFlush(context.Background()) == nil, "nil-exporter-flush-harmless")
	err := ssp.Shutdown(context.Background())
	vndAssert(err == nil, "nil-exporter-shutdown-harmless")
	err = ssp.Shutdown(context.Background())
	vndAssert(err == nil, "nil-exporter-second-shutdown-harmless")
	s2 := p.Shutdown(context.Background())
	vndReach("nil-simple")
	vndAssert(s2 == nil, "provider-shutdown-harmless")
}

// C15.once: concurrent Shutdown / Unregister shut each processor down once
func HarnessC15Once() {
	vndRaceOn(true)
	p := c15Provider()
	a := &c15Proc{id: 0}
	p.RegisterSpanProcessor(a)
	var wg sync.WaitGroup
	wg.Add(2)
	for i := 0; i < 2; i++ {
		op := vndChoice(2)
		go func() {
			defer wg.Done()
			if op == 0 {
				p.Shutdown(context.Background())
			} else {
				p.UnregisterSpanProcessor(a)
			}
		}()
	}
	wg.Wait()
	vndReach("joined")
	vndAssert(a.shutdowns == 1, "processor-shut-down-exactly-once-from-any-number-of-goroutines")
}

type c15Exp struct {
	mu        sync.Mutex
	shutdowns int
}

func (e *c15Exp) ExportSpans(context.Context, []ReadOnlySpan) error { return nil }
func (e *c15Exp) Shutdown(context.Context) error {
	e.mu.Lock()
	e.shutdowns++
	e.mu.Unlock()
	return nil
}

func HarnessC15SimpleOnce() {
	vndRaceOn(true)
	e := &c15Exp{}
	ssp := NewSimpleSpanProcessor(e)
	var wg sync.WaitGroup
	wg.Add(2)
	for i := 0; i < 2; i++ {
		go func() {
			defer wg.Done()
			ssp.Shutdown(context.Background())
		}()
	}
	wg.Wait()
	vndReach("joined")
	vndAssert(e.shutdowns == 1, "exporter-shut-down-exactly-once")
}

// a processor that unregisters itself (or another one) while a span is being
// delivered: delivery to the remaining processors is unaffected, no panic
type c15SelfUnreg struct {
	c15Proc
	p      *TracerProvider
	target SpanProcessor
}

func (r *c15SelfUnreg) OnEnd(s ReadOnlySpan) {
	r.c15Proc.OnEnd(s)
	if r.target != nil {
		r.p.UnregisterSpanProcessor(r.target)
	}
}

func HarnessC15UnregisterDuringDelivery() {
	p := c15Provider()
	a := &c15SelfUnreg{p: p}
	b, c := &c15Proc{id: 1}, &c15Proc{id: 2}
	p.RegisterSpanProcessor(a)
	p.RegisterSpanProcessor(b)
	p.RegisterSpanProcessor(c)
	switch vndChoice(3) {
	case 0:
		a.target = a
	case 1:
		a.target = b
	case 2:
		a.target = c
	}
	_, s := p.Tracer("t").Start(context.Background(), "s")
	s.End()
	vndReach("delivered")
	vndAssert(a.ended == 1, "delivery-unaffected-by-unregistration-during-delivery")
	vndAssert(b.ended <= 1 && c.ended <= 1, "delivered-at-most-once")
	// the processors still registered see the next span
	_, s2 := p.Tracer("t").Start(context.Background(), "s2")
	a.target = nil
	s2.End()
	for _, x := range []*c15Proc{b, c} {
		if SpanProcessor(x) != a.target {
			_ = x
		}
	}
}

// C15.nilbatch: the batch span processor around a nil exporter, with live or
// already-cancelled contexts: no call panics or blocks forever
func HarnessC15NilBatch() {
	bsp := NewBatchSpanProcessor(nil, WithMaxQueueSize(2), WithMaxExportBatchSize(1), WithBatchTimeout(time.Hour), WithExportTimeout(0))
	p := c15Provider()
	p.RegisterSpanProcessor(bsp)
	cancelled, cancel := context.WithCancel(context.Background())
	cancel()
	pick := func() context.Context {
		if vndChoice(2) == 1 {
			return cancelled
		}
		return context.Background()
	}
	_, s := p.Tracer("t").Start(context.Background(), "s")
	s.End()
	bsp.ForceFlush(pick())
	_, s = p.Tracer("t").Start(context.Background(), "s2")
	s.End()
	bsp.Shutdown(pick())
	bsp.Shutdown(pick())
	bsp.ForceFlush(pick())
	_, s = p.Tracer("t").Start(context.Background(), "s3")
	s.End()
	vndReach("nil-batch")
	vndAssert(p.Shutdown(context.Background()) == nil, "provider-shutdown-harmless")
}

// C15.simpleendshutdown: a span ending (slow export) while the simple span
// processor is shut down from another goroutine: the exporter is not shut down
// underneath a running export, and nothing is exported once Shutdown returned
type c15SlowExp struct {
	mu        sync.Mutex
	in        int
	shutdowns int
	downWhile bool // the exporter was shut down while an export was running
	late      bool // an export began after the exporter had been shut down
}

func (e *c15SlowExp) ExportSpans(context.Context, []ReadOnlySpan) error {
	e.mu.Lock()
	if e.shutdowns > 0 {
		e.late = true
	}
	e.in++
	e.mu.Unlock()
	vndYield() // a slow exporter
	e.mu.Lock()
	e.in--
	e.mu.Unlock()
	return nil
}

func (e *c15SlowExp) Shutdown(context.Context) error {
	e.mu.Lock()
	e.shutdowns++
	if e.in > 0 {
		e.downWhile = true
	}
	e.mu.Unlock()
	return nil
}

func HarnessC15SimpleEndShutdown() {
	vndRaceOn(true)
	e := &c15SlowExp{}
	ssp := NewSimpleSpanProcessor(e)
	p := c15Provider()
	p.RegisterSpanProcessor(ssp)
	_, s := p.Tracer("t").Start(context.Background(), "s")
	var wg sync.WaitGroup
	wg.Add(2)
	go func() { defer wg.Done(); s.End() }()
	go func() {
		defer wg.Done()
		if vndChoice(2) == 1 {
			p.Shutdown(context.Background())
		} else {
			ssp.Shutdown(context.Background())
		}
	}()
	wg.Wait()
	vndReach("joined")
	vndAssert(e.shutdowns == 1, "exporter-shut-down-exactly-once")
	vndAssert(!e.downWhile, "exporter-not-shut-down-underneath-a-running-export")
	vndAssert(!e.late, "nothing-exported-after-shutdown-returned")
}
