package log

import (
	"context"
	"sync"
	"time"

	"go.opentelemetry.io/otel/log"
)

type c15LogProc struct {
	emits, shutdowns, flushes int
}

func (p *c15LogProc) OnEmit(context.Context, *Record) error { p.emits++; return nil }
func (p *c15LogProc) Shutdown(context.Context) error        { p.shutdowns++; return nil }
func (p *c15LogProc) ForceFlush(context.Context) error      { p.flushes++; return nil }

func HarnessC15LogAfterShutdown() {
	a, b := &c15LogProc{}, &c15LogProc{}
	p := &LoggerProvider{processors: []Processor{a, b}, attributeCountLimit: -1, attributeValueLengthLimit: -1}
	l := p.Logger("l")
	var r log.Record
	r.SetBody(log.StringValue("x"))
	l.Emit(context.Background(), r)
	vndAssert(a.emits == 1 && b.emits == 1, "record-reaches-every-processor-before-shutdown")
	vndAssert(p.Shutdown(context.Background()) == nil, "shutdown-nil")
	vndAssert(a.shutdowns == 1 && b.shutdowns == 1, "each-processor-shut-down-exactly-once")
	switch vndChoice(4) {
	case 0:
		p.Logger("late").Emit(context.Background(), r)
	case 1:
		vndAssert(p.Shutdown(context.Background()) == nil, "second-shutdown-harmless")
	case 2:
		vndAssert(p.ForceFlush(context.Background()) == nil, "flush-after-shutdown-harmless")
	case 3:
		p.Logger("l").Emit(context.Background(), r) // same name as the logger created before
	}
	vndReach("after-shutdown")
	vndAssert(a.emits == 1 && b.emits == 1, "nothing-emitted-through-loggers-obtained-after-shutdown")
	vndAssert(a.shutdowns == 1 && b.shutdowns == 1, "each-processor-shut-down-exactly-once")
	vndAssert(a.flushes == 0 && b.flushes == 0, "no-flush-after-shutdown")
}

// processors built around a nil exporter never panic
func HarnessC15LogNilSimple() {
	sp := NewSimpleProcessor(nil)
	var rec Record
	vndAssert(sp.OnEmit(context.Background(), &rec) == nil, "nil-exporter-emit-harmless")
	vndAssert(sp.ForceFlush(context.Background()) == nil, "nil-exporter-flush-harmless")
	vndAssert(sp.Shutdown(context.Background()) == nil, "nil-exporter-shutdown-harmless")
	vndAssert(sp.Shutdown(context.Background()) == nil, "nil-exporter-second-shutdown-harmless")
	vndReach("nil-simple")
}

// exporter model for the batch processor
type c15LogExp struct {
	mu        sync.Mutex
	shutdowns int
	exports   int
	late      bool
	stopped   bool
}

func (e *c15LogExp) Export(context.Context, []Record) error {
	e.mu.Lock()
	e.exports++
	if e.stopped {
		e.late = true
	}
	e.mu.Unlock()
	return nil
}
func (e *c15LogExp) Shutdown(context.Context) error {
	e.mu.Lock()
	e.shutdowns++
	e.mu.Unlock()
	return nil
}
func (e *c15LogExp) ForceFlush(context.Context) error { return nil }

// C15.logbatch: the batch processor (also around a nil exporter) shut down any
// number of times, with live or already-cancelled contexts: the exporter is
// shut down exactly once, nothing is exported afterwards, no panic, no hang
func HarnessC15LogBatchShutdown() {
	e := &c15LogExp{}
	var exp Exporter = e
	nilExp := vndChoice(2) == 1
	if nilExp {
		exp = nil
	}
	b := NewBatchProcessor(exp, WithMaxQueueSize(2), WithExportMaxBatchSize(1), WithExportInterval(time.Hour), WithExportTimeout(time.Hour))
	var rec Record
	b.OnEmit(context.Background(), &rec)
	cancelled, cancel := context.WithCancel(context.Background())
	cancel()
	n := 1 + vndChoice(2)
	inTime := false
	for i := 0; i < n; i++ {
		ctx := context.Background()
		if vndChoice(2) == 1 {
			ctx = cancelled
		}
		err := b.Shutdown(ctx)
		if i == 0 && err == nil {
			// (a Shutdown that ran out of time returns the context's error while
			// batches already handed to the export goroutine may still be
			// delivered: a return that does not wait cannot promise otherwise, so
			// "nothing more is exported" is asserted for the calls that completed)
			inTime = true
		}
	}
	e.mu.Lock()
	e.stopped = true
	e.mu.Unlock()
	vndReach("shut-down")
	b.OnEmit(context.Background(), &rec)
	b.ForceFlush(context.Background())
	b.ForceFlush(cancelled)
	vndYield()
	e.mu.Lock()
	sd, late := e.shutdowns, e.late
	e.mu.Unlock()
	if !nilExp {
		vndAssert(sd == 1, "exporter-shut-down-exactly-once")
	}
	if inTime {
		vndReach("shut-down-in-time")
		vndAssert(!late, "nothing-exported-after-shutdown-returned")
	}
}

// C15.logonce: LoggerProvider.Shutdown from two goroutines: every processor is
// shut down exactly once
type c15LogProcMu struct {
	mu        sync.Mutex
	shutdowns int
}

func (p *c15LogProcMu) OnEmit(context.Context, *Record) error { return nil }
func (p *c15LogProcMu) ForceFlush(context.Context) error      { return nil }
func (p *c15LogProcMu) Shutdown(context.Context) error {
	p.mu.Lock()
	p.shutdowns++
	p.mu.Unlock()
	return nil
}

func HarnessC15LogOnce() {
	vndRaceOn(true)
	a, b := &c15LogProcMu{}, &c15LogProcMu{}
	p := &LoggerProvider{processors: []Processor{a, b}, attributeCountLimit: -1, attributeValueLengthLimit: -1}
	var wg sync.WaitGroup
	wg.Add(2)
	for i := 0; i < 2; i++ {
		go func() {
			defer wg.Done()
			p.Shutdown(context.Background())
		}()
	}
	wg.Wait()
	vndReach("joined")
	vndAssert(a.shutdowns == 1 && b.shutdowns == 1, "each-processor-shut-down-exactly-once-from-any-number-of-goroutines")
}
