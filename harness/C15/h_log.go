package log

import (
	"context"

	"go.opentelemetry.io/otel/log"
)

type c15LogProc struct {
	emits, shutdowns, flushes int
}

func (p *c15LogProc) OnEmit(context.Context, *Record) error { p.emits++; return nil }
func (p *c15LogProc) Shutdown(context.Context) error        { p.shutdowns++; return nil }
func (p *c15LogProc) ForceFlush(context.Context) error      { p.flushes++; return nil }

func HarnessC15LogAfterShutdown() {
	a, b := &c15LogProc{}, &c15LogProc{}
	p := &LoggerProvider{processors: []Processor{a, b}, attributeCountLimit: -1, attributeValueLengthLimit: -1}
	l := p.Logger("l")
	var r log.Record
	r.SetBody(log.StringValue("x"))
	l.Emit(context.Background(), r)
	vndAssert(a.emits == 1 && b.emits == 1, "record-reaches-every-processor-before-shutdown")
	vndAssert(p.Shutdown(context.Background()) == nil, "shutdown-nil")
	vndAssert(a.shutdowns == 1 && b.shutdowns == 1, "each-processor-shut-down-exactly-once")
	switch vndChoice(4) {
	case 0:
		p.Logger("late").Emit(context.Background(), r)
	case 1:
		vndAssert(p.Shutdown(context.Background()) == nil, "second-shutdown-harmless")
	case 2:
		vndAssert(p.ForceFlush(context.Background()) == nil, "flush-after-shutdown-harmless")
	case 3:
		p.Logger("l").Emit(context.Background(), r) // same name as the logger created before
	}
	vndReach("after-shutdown")
	vndAssert(a.emits == 1 && b.emits == 1, "nothing-emitted-through-loggers-obtained-after-shutdown")
	vndAssert(a.shutdowns == 1 && b.shutdowns == 1, "each-processor-shut-down-exactly-once")
	vndAssert(a.flushes == 0 && b.flushes == 0, "no-flush-after-shutdown")
}

// processors built around a nil exporter never panic
func HarnessC15LogNilSimple() {
	sp := NewSimpleProcessor(nil)
	var rec Record
	vndAssert(sp.OnEmit(context.Background(), &rec) == nil, "nil-exporter-emit-harmless")
	vndAssert(sp.ForceFlush(context.Background()) == nil, "nil-exporter-flush-harmless")
	vndAssert(sp.Shutdown(context.Background()) == nil, "nil-exporter-shutdown-harmless")
	vndAssert(sp.Shutdown(context.Background()) == nil, "nil-exporter-second-shutdown-harmless")
	vndReach("nil-simple")
}
