package aggregate

// Harnesses for C02 (sum conservation), C08 (delta vs cumulative), C12
// (cardinality limit, attribute filter) on the real aggregators obtained
// from Builder[int64].

import (
	"context"
	"math"
	"sync"
	"time"

	"go.opentelemetry.io/otel/attribute"
	"go.opentelemetry.io/otel/sdk/metric/exemplar"
	"go.opentelemetry.io/otel/sdk/metric/metricdata"
)

type exemplarT = exemplar.Exemplar

var (
	aggSets = []attribute.Set{
		attribute.NewSet(attribute.Int("k", 1)),
		attribute.NewSet(attribute.Int("k", 2)),
		attribute.NewSet(attribute.Int("k", 3)),
		attribute.NewSet(attribute.Int("k", 4)),
		attribute.NewSet(attribute.Bool("otel.metric.overflow", true)),
	}
	aggTick int64
)

const aggOverflow = 4

// aggClock installs a deterministic strictly increasing clock.
func aggClock() {
	aggTick = 0
	now = func() time.Time {
		aggTick++
		return time.Unix(1000+aggTick, 0)
	}
}

func aggSetIndex(s attribute.Set) int {
	for i := range aggSets {
		if s.Equals(&aggSets[i]) {
			return i
		}
	}
	return -1
}

type aggPoint struct {
	present bool
	value   int64
	start   time.Time
	time    time.Time
	n       int // how many points carried this set
}

// aggSumPoints indexes the data points of a Sum / Gauge aggregation by set.
func aggSumPoints(a metricdata.Aggregation) ([5]aggPoint, int, metricdata.Temporality, bool) {
	var out [5]aggPoint
	var pts []metricdata.DataPoint[int64]
	var temp metricdata.Temporality
	mono := false
	switch d := a.(type) {
	case metricdata.Sum[int64]:
		pts, temp, mono = d.DataPoints, d.Temporality, d.IsMonotonic
	case metricdata.Gauge[int64]:
		pts = d.DataPoints
	}
	unknown := 0
	for _, p := range pts {
		i := aggSetIndex(p.Attributes)
		if i < 0 {
			unknown++
			continue
		}
		out[i].present = true
		out[i].value = p.Value
		out[i].start, out[i].time = p.StartTime, p.Time
		out[i].n++
	}
	return out, len(pts) + unknown*100, temp, mono
}

// ---------------------------------------------------------------- C02

// C02.seq: a delta and a cumulative sum fed by the same measurements;
// K symbolic operations: measure(v, set) | collect-delta | collect-cumulative
func HarnessC02Seq() {
	aggClock()
	mono := vndChoice(2) == 1
	md, cd := Builder[int64]{Temporality: metricdata.DeltaTemporality}.Sum(mono)
	mc, cc := Builder[int64]{Temporality: metricdata.CumulativeTemporality}.Sum(mono)
	ctx := context.Background()
	var total, pending, deltaSum, lastCum [3]int64
	var everSeen, pendingSeen [3]bool
	anyNeg := false
	nsets := vndParam("SETS", 2)
	k := vndParam("K", 4)
	check := func(kind int) {
		var dest metricdata.Aggregation
		if kind == 0 {
			n := cd(&dest)
			pts, np, temp, m := aggSumPoints(dest)
			vndAssert(temp == metricdata.DeltaTemporality, "delta-temporality-field")
			vndAssert(m == mono, "monotonic-field")
			want := 0
			for i := 0; i < 3; i++ {
				if pendingSeen[i] {
					want++
				}
				vndAssert(pts[i].present == pendingSeen[i], "delta-reports-exactly-the-sets-measured-in-the-cycle")
				if pts[i].present {
					vndAssert(pts[i].n == 1, "one-point-per-set")
					vndAssert(pts[i].value == pending[i], "delta-value-is-sum-of-cycle")
					deltaSum[i] += pts[i].value
				}
				pending[i], pendingSeen[i] = 0, false
			}
			vndAssert(n == want, "returned-count-equals-points")
			vndAssert(np == want, "delta-point-count")
			vndReach("collect-delta")
		} else {
			n := cc(&dest)
			pts, np, temp, _ := aggSumPoints(dest)
			vndAssert(temp == metricdata.CumulativeTemporality, "cumulative-temporality-field")
			want := 0
			for i := 0; i < 3; i++ {
				if everSeen[i] {
					want++
				}
				vndAssert(pts[i].present == everSeen[i], "cumulative-reports-every-set-seen")
				if pts[i].present {
					vndAssert(pts[i].value == total[i], "cumulative-value-is-running-total")
					if mono {
						vndAssert(vndOr(anyNeg, pts[i].value >= lastCum[i]), "monotonic-sum-never-decreases")
					}
					lastCum[i] = pts[i].value
				}
			}
			vndAssert(n == want, "returned-count-equals-points")
			vndAssert(np == want, "cumulative-point-count")
			vndReach("collect-cumulative")
		}
	}
	for step := 0; step < k; step++ {
		switch vndChoice(3) {
		case 0:
			v := vndI64()
			if mono {
				// a counter is meant for non-negative increments, but what is
				// recorded is what must be reported: negative inputs are summed too;
				// "never decreases" is claimed for non-negative inputs only
				vndAssume(vndAnd(v >= -(1<<40), v <= 1<<40))
				anyNeg = vndOr(anyNeg, v < 0)
			}
			si := vndChoice(nsets)
			md(ctx, v, aggSets[si])
			mc(ctx, v, aggSets[si])
			total[si] += v
			pending[si] += v
			everSeen[si], pendingSeen[si] = true, true
		case 1:
			check(0)
		case 2:
			check(1)
		}
	}
	check(0)
	check(1)
	for i := 0; i < 3; i++ {
		vndAssert(deltaSum[i] == total[i], "delta-reports-add-up-to-the-measurements")
	}
}

// C02.step: one operation from an arbitrary state of sum[int64]
func HarnessC02Step() {
	aggClock()
	s := newSum[int64](vndBool(), 0, dropReservoir[int64])
	var pre [3]int64
	var has [3]bool
	for i := 0; i < 3; i++ {
		if vndChoice(2) == 1 {
			has[i] = true
			pre[i] = vndI64()
			s.values[aggSets[i].Equivalent()] = sumValue[int64]{n: pre[i], attrs: aggSets[i], res: dropReservoir[int64](aggSets[i])}
		}
	}
	start0 := s.start
	var dest metricdata.Aggregation
	switch vndChoice(3) {
	case 0:
		v := vndI64()
		si := vndChoice(3)
		s.measure(context.Background(), v, aggSets[si], nil)
		vndReach("measure")
		for i := 0; i < 3; i++ {
			e, ok := s.values[aggSets[i].Equivalent()]
			if i == si {
				vndAssert(ok, "measure-creates-entry")
				vndAssert(e.n == pre[i]+v, "measure-adds-to-entry")
			} else {
				vndAssert(ok == has[i], "measure-leaves-other-entries")
				if ok {
					vndAssert(e.n == pre[i], "measure-leaves-other-entries")
				}
			}
		}
	case 1:
		s.delta(&dest)
		vndReach("delta")
		pts, _, _, _ := aggSumPoints(dest)
		for i := 0; i < 3; i++ {
			vndAssert(pts[i].present == has[i], "delta-returns-exactly-the-entries")
			if pts[i].present {
				vndAssert(pts[i].value == pre[i], "delta-returns-entry-values")
				vndAssert(pts[i].start.Equal(start0), "delta-start-is-previous-collection")
				vndAssert(pts[i].time.Equal(s.start), "delta-moves-start-to-collection-time")
			}
		}
		vndAssert(len(s.values) == 0, "delta-clears")
		vndAssert(s.start.After(start0), "delta-moves-start")
	case 2:
		s.cumulative(&dest)
		vndReach("cumulative")
		pts, _, _, _ := aggSumPoints(dest)
		for i := 0; i < 3; i++ {
			vndAssert(pts[i].present == has[i], "cumulative-returns-exactly-the-entries")
			if pts[i].present {
				vndAssert(pts[i].value == pre[i], "cumulative-returns-entry-values")
				vndAssert(pts[i].start.Equal(start0), "cumulative-keeps-start")
			}
			e, ok := s.values[aggSets[i].Equivalent()]
			vndAssert(ok == has[i], "cumulative-does-not-clear")
			if ok {
				vndAssert(e.n == pre[i], "cumulative-does-not-clear")
			}
		}
		vndAssert(s.start.Equal(start0), "cumulative-keeps-start")
	}
}

// C02.conc: two measuring goroutines against a collector doing two delta
// collections; conservation after a final collection; no data race
func HarnessC02Conc() {
	aggClock()
	vndRaceOn(true)
	m, c := Builder[int64]{Temporality: metricdata.DeltaTemporality}.Sum(false)
	ctx := context.Background()
	v1, v2, v3 := vndI64(), vndI64(), vndI64()
	var wg sync.WaitGroup
	wg.Add(3)
	go func() {
		defer wg.Done()
		m(ctx, v1, aggSets[0])
		m(ctx, v2, aggSets[0])
	}()
	go func() {
		defer wg.Done()
		m(ctx, v3, aggSets[0])
	}()
	var got int64
	go func() {
		defer wg.Done()
		for i := 0; i < 2; i++ {
			var dest metricdata.Aggregation
			// as pipeline.produce does: the aggregation is used only if the returned count is positive
			if n := c(&dest); n > 0 {
				pts, np, _, _ := aggSumPoints(dest)
				vndAssert(n == np, "returned-count-equals-points")
				if pts[0].present {
					got += pts[0].value
				}
			}
		}
	}()
	wg.Wait()
	var dest metricdata.Aggregation
	if n := c(&dest); n > 0 {
		pts, _, _, _ := aggSumPoints(dest)
		if pts[0].present {
			got += pts[0].value
		}
	}
	vndReach("joined")
	vndAssert(got == v1+v2+v3, "concurrent-measurements-each-counted-in-exactly-one-delta-collection")
}

// ---------------------------------------------------------------- C08

type aggHist struct {
	present  bool
	count    uint64
	sum      int64
	buckets  [4]uint64
	nb       int
	start, t time.Time
}

func aggHistPoints(a metricdata.Aggregation) ([2]aggHist, int) {
	var out [2]aggHist
	d, _ := a.(metricdata.Histogram[int64])
	for _, p := range d.DataPoints {
		i := aggSetIndex(p.Attributes)
		if i < 0 || i > 1 {
			continue
		}
		out[i].present = true
		out[i].count, out[i].sum = p.Count, p.Sum
		out[i].nb = len(p.BucketCounts)
		for j := 0; j < len(p.BucketCounts) && j < 4; j++ {
			out[i].buckets[j] = p.BucketCounts[j]
		}
		out[i].start, out[i].t = p.StartTime, p.Time
	}
	return out, len(d.DataPoints)
}

// C08.pair (sums): delta and cumulative aggregators of one kind fed the same
// history; after every collection of both, cumulative == running sum of deltas
func HarnessC08PairSum() {
	aggClock()
	precomputed := vndChoice(2) == 1
	var md, mc Measure[int64]
	var cd, cc ComputeAggregation
	if precomputed {
		md, cd = Builder[int64]{Temporality: metricdata.DeltaTemporality}.PrecomputedSum(false)
		mc, cc = Builder[int64]{Temporality: metricdata.CumulativeTemporality}.PrecomputedSum(false)
	} else {
		md, cd = Builder[int64]{Temporality: metricdata.DeltaTemporality}.Sum(false)
		mc, cc = Builder[int64]{Temporality: metricdata.CumulativeTemporality}.Sum(false)
	}
	ctx := context.Background()
	var run [2]int64     // running sum of delta reports
	var lastObs [2]int64 // precomputed: value observed in the preceding cycle
	var lastSeen [2]bool
	var obs [2]int64 // precomputed: observed in this cycle (sum of observations)
	var seen [2]bool
	var prevDeltaTime time.Time
	var cumStart time.Time
	first := true
	k := vndParam("K", 4)
	for step := 0; step < k; step++ {
		if vndChoice(2) == 0 {
			v := vndI64()
			si := vndChoice(2)
			md(ctx, v, aggSets[si])
			mc(ctx, v, aggSets[si])
			obs[si] += v
			seen[si] = true
			continue
		}
		var dd, dc metricdata.Aggregation
		cd(&dd)
		cc(&dc)
		dp, _, _, _ := aggSumPoints(dd)
		cp, _, _, _ := aggSumPoints(dc)
		vndReach("collect")
		for i := 0; i < 2; i++ {
			if precomputed {
				// exactly the sets observed in this cycle; delta = observed - previously observed
				vndAssert(dp[i].present == seen[i], "async-delta-reports-exactly-observed-sets")
				vndAssert(cp[i].present == seen[i], "async-cumulative-reports-exactly-observed-sets")
				if dp[i].present {
					want := obs[i]
					if lastSeen[i] {
						want -= lastObs[i]
					}
					vndAssert(dp[i].value == want, "async-delta-is-observed-minus-previous")
				}
				if cp[i].present {
					vndAssert(cp[i].value == obs[i], "async-cumulative-is-observed-value")
				}
				lastObs[i], lastSeen[i] = obs[i], seen[i]
				obs[i], seen[i] = 0, false
			} else {
				if dp[i].present {
					run[i] += dp[i].value
				}
				if cp[i].present {
					vndAssert(cp[i].value == run[i], "cumulative-equals-running-total-of-deltas")
				} else {
					vndAssert(!dp[i].present, "cumulative-has-every-set-delta-has")
				}
			}
			if dp[i].present {
				if !first {
					vndAssert(dp[i].start.Equal(prevDeltaTime), "delta-starts-where-previous-collection-ended")
				}
				vndAssert(!dp[i].start.After(dp[i].time), "start-not-after-time")
			}
			if cp[i].present {
				if !first && !precomputed {
					vndAssert(cp[i].start.Equal(cumStart), "cumulative-keeps-one-fixed-start")
				}
				vndAssert(!cp[i].start.After(cp[i].time), "start-not-after-time")
			}
		}
		for i := 0; i < 2; i++ {
			if dp[i].present {
				prevDeltaTime = dp[i].time
				first = false
			}
			if cp[i].present && cumStart.IsZero() {
				cumStart = cp[i].start
			}
		}
		if !dp[0].present && !dp[1].present {
			// an empty collection still ends the interval: the next delta starts after it
			first = true
		}
	}
}

// C08.pair (gauge): last value of the cycle
func HarnessC08PairGauge() {
	aggClock()
	precomputed := vndChoice(2) == 1
	var md Measure[int64]
	var cd ComputeAggregation
	if precomputed {
		md, cd = Builder[int64]{Temporality: metricdata.DeltaTemporality}.PrecomputedLastValue()
	} else {
		md, cd = Builder[int64]{Temporality: metricdata.DeltaTemporality}.LastValue()
	}
	ctx := context.Background()
	var last [2]int64
	var seen [2]bool
	k := vndParam("K", 4)
	for step := 0; step < k; step++ {
		if vndChoice(2) == 0 {
			v := vndI64()
			si := vndChoice(2)
			md(ctx, v, aggSets[si])
			last[si], seen[si] = v, true
			continue
		}
		var dd metricdata.Aggregation
		cd(&dd)
		dp, _, _, _ := aggSumPoints(dd)
		vndReach("collect")
		for i := 0; i < 2; i++ {
			vndAssert(dp[i].present == seen[i], "gauge-reports-sets-recorded-in-cycle")
			if dp[i].present {
				vndAssert(dp[i].value == last[i], "gauge-reports-last-value-of-cycle")
				vndAssert(!dp[i].start.After(dp[i].time), "start-not-after-time")
			}
			seen[i] = false
		}
	}
}

// C08.pair (explicit histogram)
func HarnessC08PairHist() {
	aggClock()
	bounds := []float64{0, 10}
	md, cd := Builder[int64]{Temporality: metricdata.DeltaTemporality}.ExplicitBucketHistogram(bounds, false, false)
	mc, cc := Builder[int64]{Temporality: metricdata.CumulativeTemporality}.ExplicitBucketHistogram(bounds, false, false)
	ctx := context.Background()
	var run [2]aggHist
	var prevDeltaTime time.Time
	first := true
	k := vndParam("K", 4)
	for step := 0; step < k; step++ {
		if vndChoice(2) == 0 {
			v := vndI64()
			vndAssume(vndAnd(v >= -1000, v <= 1000))
			si := vndChoice(2)
			md(ctx, v, aggSets[si])
			mc(ctx, v, aggSets[si])
			continue
		}
		var dd, dc metricdata.Aggregation
		cd(&dd)
		cc(&dc)
		dp, _ := aggHistPoints(dd)
		cp, _ := aggHistPoints(dc)
		vndReach("collect")
		for i := 0; i < 2; i++ {
			if dp[i].present {
				run[i].count += dp[i].count
				run[i].sum += dp[i].sum
				for j := 0; j < 3; j++ {
					run[i].buckets[j] += dp[i].buckets[j]
				}
				vndAssert(dp[i].nb == 3, "one-more-bucket-than-boundaries")
				vndAssert(dp[i].buckets[0]+dp[i].buckets[1]+dp[i].buckets[2] == dp[i].count, "bucket-counts-sum-to-count")
				if !first {
					vndAssert(dp[i].start.Equal(prevDeltaTime), "delta-starts-where-previous-collection-ended")
				}
			}
			if cp[i].present {
				vndAssert(cp[i].count == run[i].count, "cumulative-count-equals-running-total-of-deltas")
				vndAssert(cp[i].sum == run[i].sum, "cumulative-sum-equals-running-total-of-deltas")
				for j := 0; j < 3; j++ {
					vndAssert(cp[i].buckets[j] == run[i].buckets[j], "cumulative-buckets-equal-running-total-of-deltas")
				}
				vndAssert(!cp[i].start.After(cp[i].t), "start-not-after-time")
			} else {
				vndAssert(!dp[i].present, "cumulative-has-every-set-delta-has")
			}
		}
		for i := 0; i < 2; i++ {
			if dp[i].present {
				prevDeltaTime = dp[i].t
				first = false
			}
		}
		if !dp[0].present && !dp[1].present {
			first = true
		}
	}
}

// ---------------------------------------------------------------- C12

// C12.limit: cardinality limit L on each sum kind and temporality; K
// measurements over the sets {A,B,C,D,overflow}, a collection in the middle
func HarnessC12Limit() {
	aggClock()
	limit := vndChoice(vndParam("LMAX", 4) + 1) // 0 .. LMAX
	delta := vndChoice(2) == 1
	temp := metricdata.CumulativeTemporality
	if delta {
		temp = metricdata.DeltaTemporality
	}
	kind := vndChoice(vndParam("KINDS", 2))
	b := Builder[int64]{Temporality: temp, AggregationLimit: limit}
	var m Measure[int64]
	var c ComputeAggregation
	switch kind {
	case 0:
		m, c = b.Sum(false)
	case 1:
		m, c = b.ExplicitBucketHistogram([]float64{0}, false, false)
	case 2:
		m, c = b.LastValue()
	default:
		m, c = b.PrecomputedSum(false)
	}
	ctx := context.Background()
	// model (DESIGN A.4)
	var admitted []int
	var sums, prev [5]int64
	var counts [5]uint64
	var total int64
	var nmeas uint64
	clearsOnCollect := delta || kind == 3
	k := vndParam("K", 4)
	nsets := vndParam("SETS", 5)
	collectAt := vndChoice(k + 1)
	doCollect := func() {
		var dest metricdata.Aggregation
		c(&dest)
		var got [5]bool
		var gsum, gprev int64
		var gcount uint64
		npts := 0
		switch kind {
		case 1:
			d, _ := dest.(metricdata.Histogram[int64])
			npts = len(d.DataPoints)
			for _, p := range d.DataPoints {
				i := aggSetIndex(p.Attributes)
				vndAssert(i >= 0, "limit-known-attribute-set")
				if i >= 0 {
					vndAssert(!got[i], "limit-one-point-per-set")
					got[i] = true
					vndAssert(p.Count == counts[i], "limit-point-count-per-set")
					vndAssert(p.Sum == sums[i], "limit-point-sum-per-set")
					gsum += p.Sum
					gcount += p.Count
				}
			}
			vndAssert(gcount == nmeas, "limit-total-count-conserved")
			vndAssert(gsum == total, "limit-total-sum-conserved")
		default:
			pts, n, _, _ := aggSumPoints(dest)
			npts = n
			for i := 0; i < 5; i++ {
				got[i] = pts[i].present
				if pts[i].present {
					vndAssert(pts[i].n == 1, "limit-one-point-per-set")
					if kind != 2 {
						// a delta precomputed sum reports the observed value minus the
						// value observed for that set in the preceding cycle
						vndAssert(pts[i].value == sums[i]-prev[i], "limit-point-sum-per-set")
						gsum += pts[i].value
						gprev += prev[i]
					}
				}
			}
			if kind != 2 {
				vndAssert(gsum == total-gprev, "limit-total-sum-conserved")
			}
		}
		if limit > 0 {
			vndAssert(npts <= limit, "never-more-than-limit-attribute-sets")
		}
		for i := 0; i < 5; i++ {
			in := false
			for _, a := range admitted {
				if a == i {
					in = true
				}
			}
			vndAssert(got[i] == in, "first-sets-keep-identity-rest-under-overflow")
		}
		vndAssert(npts == len(admitted), "limit-point-count-equals-model")
		if clearsOnCollect {
			if kind == 3 && delta {
				prev = sums // sets not observed in this cycle start from zero again
			}
			admitted = nil
			sums, counts, total, nmeas = [5]int64{}, [5]uint64{}, 0, 0
		}
	}
	for step := 0; step < k; step++ {
		if step == collectAt {
			doCollect()
		}
		v := vndI64()
		if kind == 1 {
			v = int64(step + 1) // histogram: concrete values (bucket placement is C07's subject)
		}
		si := []int{0, 1, aggOverflow, 2, 3}[vndChoice(nsets)]
		m(ctx, v, aggSets[si])
		target := si
		in := false
		for _, a := range admitted {
			if a == si {
				in = true
			}
		}
		if limit > 0 && !in && len(admitted) >= limit-1 {
			target = aggOverflow
			vndReach("overflow")
		}
		in = false
		for _, a := range admitted {
			if a == target {
				in = true
			}
		}
		if !in {
			admitted = append(admitted, target)
		}
		if kind == 2 {
			sums[target] = v
		} else {
			sums[target] += v
		}
		counts[target]++
		total += v
		nmeas++
	}
	doCollect()
}

// C12.filter: an attribute filter reports each measurement under its
// filtered set, adds streams that become identical, conserves totals and
// hands the dropped attributes to the reservoir
type aggRes struct {
	dropped *[]int
}

func (r aggRes) Offer(_ context.Context, _ int64, attr []attribute.KeyValue) {
	*r.dropped = append(*r.dropped, len(attr))
}
func (r aggRes) Collect(dest *[]exemplarT) { *dest = (*dest)[:0] }

func HarnessC12Filter() {
	aggClock()
	var droppedLens []int
	full := []attribute.Set{
		attribute.NewSet(attribute.Int("k", 1), attribute.Int("x", 1)),
		attribute.NewSet(attribute.Int("k", 1), attribute.Int("x", 2)),
		attribute.NewSet(attribute.Int("k", 2)),
		attribute.NewSet(attribute.Int("x", 3)),
	}
	wantIdx := []int{0, 0, 1, -2} // filtered set index in aggSets; -2 = empty set
	wantDropped := []int{1, 1, 0, 1}
	delta := vndChoice(2) == 1
	temp := metricdata.CumulativeTemporality
	if delta {
		temp = metricdata.DeltaTemporality
	}
	b := Builder[int64]{Temporality: temp, Filter: func(kv attribute.KeyValue) bool { return kv.Key == "k" },
		ReservoirFunc: func(attribute.Set) FilteredExemplarReservoir[int64] { return aggRes{&droppedLens} }}
	m, c := b.Sum(false)
	ctx := context.Background()
	var sums [3]int64 // [k=1], [k=2], [empty]
	var seen [3]bool
	var total int64
	k := vndParam("K", 3)
	for step := 0; step < k; step++ {
		v := vndI64()
		fi := vndChoice(4)
		m(ctx, v, full[fi])
		w := wantIdx[fi]
		if w == -2 {
			w = 2
		}
		sums[w] += v
		seen[w] = true
		total += v
		vndAssert(len(droppedLens) == step+1, "filter-offers-each-measurement-once")
		if len(droppedLens) == step+1 {
			vndAssert(droppedLens[step] == wantDropped[fi], "filter-hands-dropped-attributes-to-reservoir")
		}
	}
	var dest metricdata.Aggregation
	c(&dest)
	d, _ := dest.(metricdata.Sum[int64])
	var gsum int64
	var got [3]bool
	empty := attribute.NewSet()
	for _, p := range d.DataPoints {
		i := aggSetIndex(p.Attributes)
		if p.Attributes.Equals(&empty) {
			i = 2
		}
		vndAssert(i >= 0 && i <= 2, "filter-reports-under-filtered-set")
		if i >= 0 && i <= 2 {
			vndAssert(!got[i], "filter-merges-streams-that-become-identical")
			got[i] = true
			vndAssert(p.Value == sums[i], "filter-adds-merged-streams")
			gsum += p.Value
		}
	}
	vndReach("filter")
	for i := 0; i < 3; i++ {
		vndAssert(got[i] == seen[i], "filter-reports-every-filtered-set")
	}
	vndAssert(gsum == total, "filter-total-conserved")
}

// C08.pair (exponential histogram, MaxScale 0 so that no logarithm is needed):
// the same measurements read by a delta and a cumulative aggregator; every
// point's zero / positive / negative bucket counts equal a reference bucketing
// of the measurements it covers at the point's own scale, so the cumulative
// buckets equal the running total of the delta buckets (re-scaled)
var aggExpoVals = []float64{1.5, 3, -3, 12, 100, 0.3, 6, 0}

// index of the scale-0 bucket (2^i, 2^(i+1)] holding |v|
func aggExpoIndex0(v float64) int {
	frac, exp := math.Frexp(math.Abs(v))
	if frac == 0.5 {
		return exp - 2
	}
	return exp - 1
}

func aggExpoCheck(dp metricdata.ExponentialHistogramDataPoint[float64], vals []float64, tag string) {
	vndAssert(dp.Count == uint64(len(vals)), tag+"-count")
	vndAssert(dp.Scale <= 0 && dp.Scale >= -10, tag+"-scale-in-range")
	sh := uint(-dp.Scale)
	var zero uint64
	pos, neg := map[int]uint64{}, map[int]uint64{}
	for _, v := range vals {
		switch {
		case v == 0:
			zero++
		case v > 0:
			pos[aggExpoIndex0(v)>>sh]++
		default:
			neg[aggExpoIndex0(v)>>sh]++
		}
	}
	vndAssert(dp.ZeroCount == zero, tag+"-zero-count")
	for side, b := range []metricdata.ExponentialBucket{dp.PositiveBucket, dp.NegativeBucket} {
		want := pos
		if side == 1 {
			want = neg
		}
		vndAssert(len(b.Counts) <= 4, tag+"-at-most-max-size-buckets")
		var total uint64
		for i, c := range b.Counts {
			vndAssert(c == want[int(b.Offset)+i], tag+"-bucket-counts")
			total += c
		}
		var wantTotal uint64
		for _, c := range want {
			wantTotal += c
		}
		vndAssert(total == wantTotal, tag+"-no-count-outside-the-buckets")
	}
}

func HarnessC08PairExpo() {
	aggClock()
	md, cd := Builder[float64]{Temporality: metricdata.DeltaTemporality}.ExponentialBucketHistogram(4, 0, false, false)
	mc, cc := Builder[float64]{Temporality: metricdata.CumulativeTemporality}.ExponentialBucketHistogram(4, 0, false, false)
	ctx := context.Background()
	var all, since []float64
	k := vndParam("K", 5)
	nv := vndParam("VALS", 6)
	for step := 0; step < k; step++ {
		if c := vndChoice(nv + 1); c < nv {
			v := aggExpoVals[c]
			md(ctx, v, aggSets[0])
			mc(ctx, v, aggSets[0])
			all, since = append(all, v), append(since, v)
			continue
		}
		var dd, dc metricdata.Aggregation
		cd(&dd)
		cc(&dc)
		vndReach("collect")
		dh, _ := dd.(metricdata.ExponentialHistogram[float64])
		ch, _ := dc.(metricdata.ExponentialHistogram[float64])
		if len(since) == 0 {
			vndAssert(len(dh.DataPoints) == 0, "delta-reports-nothing-without-measurements")
		} else {
			vndAssert(len(dh.DataPoints) == 1, "delta-point-present")
			if len(dh.DataPoints) == 1 {
				aggExpoCheck(dh.DataPoints[0], since, "delta")
			}
		}
		if len(all) == 0 {
			vndAssert(len(ch.DataPoints) == 0, "cumulative-reports-nothing-without-measurements")
		} else {
			vndAssert(len(ch.DataPoints) == 1, "cumulative-point-present")
			if len(ch.DataPoints) == 1 {
				aggExpoCheck(ch.DataPoints[0], all, "cumulative-equals-running-total")
			}
		}
		since = nil
	}
}

// C02.seqf64: the float64 instance of the sum aggregators. Floating-point
// addition is not associative, so conservation is stated as: each reported
// value is bit-for-bit the left-to-right sum of the measurements it covers
// (the order in which a sequential caller made them); a monotonic sum of
// non-negative finite inputs never decreases.
func HarnessC02SeqF64() {
	aggClock()
	mono := vndChoice(2) == 1
	md, cd := Builder[float64]{Temporality: metricdata.DeltaTemporality}.Sum(mono)
	mc, cc := Builder[float64]{Temporality: metricdata.CumulativeTemporality}.Sum(mono)
	ctx := context.Background()
	var total, pending, lastCum [2]float64
	var everSeen, pendingSeen [2]bool
	k := vndParam("K", 4)
	points := func(a metricdata.Aggregation) (val [2]float64, present [2]bool, n int) {
		s, _ := a.(metricdata.Sum[float64])
		for _, p := range s.DataPoints {
			n++
			for i := 0; i < 2; i++ {
				if p.Attributes.Equals(&aggSets[i]) {
					val[i], present[i] = p.Value, true
				}
			}
		}
		return
	}
	for step := 0; step < k; step++ {
		switch vndChoice(3) {
		case 0:
			v := vndF64()
			vndAssume(vndAnd(v >= -1e300, v <= 1e300)) // finite (and not NaN)
			if mono {
				vndAssume(v >= 0)
			}
			si := vndChoice(2)
			md(ctx, v, aggSets[si])
			mc(ctx, v, aggSets[si])
			total[si] += v
			pending[si] += v
			everSeen[si], pendingSeen[si] = true, true
		case 1:
			var dest metricdata.Aggregation
			cd(&dest)
			val, present, n := points(dest)
			want := 0
			for i := 0; i < 2; i++ {
				vndAssert(present[i] == pendingSeen[i], "delta-reports-exactly-the-sets-measured-in-the-cycle")
				if present[i] {
					want++
					vndAssert(math.Float64bits(val[i]) == math.Float64bits(pending[i]), "delta-value-is-the-in-order-sum-of-the-cycle")
				}
				pending[i], pendingSeen[i] = 0, false
			}
			vndAssert(n == want, "delta-point-count")
			vndReach("collect-delta")
		case 2:
			var dest metricdata.Aggregation
			cc(&dest)
			val, present, n := points(dest)
			want := 0
			for i := 0; i < 2; i++ {
				vndAssert(present[i] == everSeen[i], "cumulative-reports-every-set-seen")
				if present[i] {
					want++
					vndAssert(math.Float64bits(val[i]) == math.Float64bits(total[i]), "cumulative-value-is-the-in-order-running-total")
					if mono {
						vndAssert(val[i] >= lastCum[i], "monotonic-sum-never-decreases")
					}
					lastCum[i] = val[i]
				}
			}
			vndAssert(n == want, "cumulative-point-count")
			vndReach("collect-cumulative")
		}
	}
}

// C08.destreuse: what an aggregator reports depends on what it measured, not
// on what the destination held before: two cumulative aggregators of one kind
// (sum, explicit histogram, last value) collected into two shared destination
// slots in any order (the SDK reuses the slots of a ResourceMetrics)
func HarnessC08DestReuse() {
	aggClock()
	kind := vndChoice(4)
	var m [2]Measure[int64]
	var c [2]ComputeAggregation
	for i := 0; i < 2; i++ {
		b := Builder[int64]{Temporality: metricdata.CumulativeTemporality}
		switch kind {
		case 0:
			m[i], c[i] = b.Sum(false)
		case 1:
			m[i], c[i] = b.ExplicitBucketHistogram([]float64{0, 10}, false, false)
		case 2:
			m[i], c[i] = b.LastValue()
		case 3:
			m[i], c[i] = b.ExponentialBucketHistogram(4, 0, false, false)
		}
	}
	ctx := context.Background()
	var slots [2]metricdata.Aggregation
	var total [2]int64
	var count [2]uint64
	var last [2]int64
	var buckets [2][3]uint64
	var npos, nneg [2]uint64
	k := vndParam("K", 5)
	for step := 0; step < k; step++ {
		a := vndChoice(2)
		if vndChoice(2) == 0 {
			v := []int64{-5, 15, 5}[vndChoice(vndParam("VALS", 2))]
			m[a](ctx, v, aggSets[0])
			total[a] += v
			count[a]++
			last[a] = v
			if v > 0 {
				npos[a]++
			} else if v < 0 {
				nneg[a]++
			}
			switch {
			case v <= 0:
				buckets[a][0]++
			case v <= 10:
				buckets[a][1]++
			default:
				buckets[a][2]++
			}
			continue
		}
		s := vndChoice(vndParam("SLOTS", 1))
		n := c[a](&slots[s])
		vndReach("collect")
		if count[a] == 0 {
			vndAssert(n == 0, "nothing-measured-nothing-reported")
			continue
		}
		vndAssert(n == 1, "one-point-for-the-one-set")
		switch d := slots[s].(type) {
		case metricdata.Sum[int64]:
			vndAssert(kind == 0 && len(d.DataPoints) == 1 && d.DataPoints[0].Value == total[a], "cumulative-sum-equals-own-running-total")
		case metricdata.Histogram[int64]:
			ok := kind == 1 && len(d.DataPoints) == 1
			vndAssert(ok, "histogram-reported")
			if ok {
				p := d.DataPoints[0]
				vndAssert(p.Count == count[a] && p.Sum == total[a], "cumulative-histogram-count-and-sum-equal-own-running-total")
				vndAssert(len(p.BucketCounts) == 3 && p.BucketCounts[0] == buckets[a][0] && p.BucketCounts[1] == buckets[a][1] && p.BucketCounts[2] == buckets[a][2], "cumulative-histogram-buckets-equal-own-running-total")
			}
		case metricdata.ExponentialHistogram[int64]:
			ok := kind == 3 && len(d.DataPoints) == 1
			vndAssert(ok, "histogram-reported")
			if ok {
				p := d.DataPoints[0]
				var ps, ns uint64
				for _, x := range p.PositiveBucket.Counts {
					ps += x
				}
				for _, x := range p.NegativeBucket.Counts {
					ns += x
				}
				vndAssert(p.Count == count[a] && p.Sum == total[a], "cumulative-histogram-count-and-sum-equal-own-running-total")
				vndAssert(ps == npos[a] && ns == nneg[a] && p.ZeroCount == count[a]-npos[a]-nneg[a], "pow2-count-is-zero-plus-positive-plus-negative")
			}
		case metricdata.Gauge[int64]:
			vndAssert(kind == 2 && len(d.DataPoints) == 1 && d.DataPoints[0].Value == last[a], "gauge-reports-own-last-value")
		default:
			vndAssert(false, "aggregation-of-the-expected-kind")
		}
	}
}

// C12.filterwide: the same with four-attribute sets of which the filter keeps
// the first two: streams that become identical are added together (the filtered
// set is a canonical Set whatever the positions of the dropped attributes)
func HarnessC12FilterWide() {
	aggClock()
	mk := func(a, c int) attribute.Set {
		return attribute.NewSet(attribute.Int("a", a), attribute.Int("b", 1), attribute.Int("c", c), attribute.Int("d", c))
	}
	full := []attribute.Set{mk(1, 1), mk(1, 2), mk(2, 1)}
	want := []attribute.Set{attribute.NewSet(attribute.Int("a", 1), attribute.Int("b", 1)), attribute.NewSet(attribute.Int("a", 2), attribute.Int("b", 1))}
	wantIdx := []int{0, 0, 1}
	temp := metricdata.CumulativeTemporality
	if vndChoice(2) == 1 {
		temp = metricdata.DeltaTemporality
	}
	b := Builder[int64]{Temporality: temp, Filter: attribute.NewAllowKeysFilter("a", "b")}
	m, c := b.Sum(false)
	ctx := context.Background()
	var sums [2]int64
	var seen [2]bool
	k := vndParam("K", 3)
	for step := 0; step < k; step++ {
		v := vndI64()
		fi := vndChoice(3)
		m(ctx, v, full[fi])
		sums[wantIdx[fi]] += v
		seen[wantIdx[fi]] = true
	}
	var dest metricdata.Aggregation
	c(&dest)
	d, _ := dest.(metricdata.Sum[int64])
	vndReach("filter")
	var got [2]bool
	for _, p := range d.DataPoints {
		i := -1
		for j := range want {
			if p.Attributes.Equals(&want[j]) {
				i = j
			}
		}
		vndAssert(i >= 0, "filter-reports-under-filtered-set")
		if i >= 0 {
			vndAssert(!got[i], "filter-merges-streams-that-become-identical")
			got[i] = true
			vndAssert(p.Value == sums[i], "filter-adds-merged-streams")
		}
	}
	for i := range want {
		vndAssert(got[i] == seen[i], "filter-reports-every-measured-stream")
	}
}
