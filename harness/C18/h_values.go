package prometheus

import (
	"context"
	"math"
	"strings"
	"time"

	"github.com/prometheus/client_golang/prometheus"
	dto "github.com/prometheus/client_model/go"

	"go.opentelemetry.io/otel/attribute"
	"go.opentelemetry.io/otel/metric"
	sdkmetric "go.opentelemetry.io/otel/sdk/metric"
	"go.opentelemetry.io/otel/sdk/metric/metricdata"
	"go.opentelemetry.io/otel/sdk/resource"
)

// ---- models of the client_golang constructors (engine only: the native replay
// runs the real ones; in both cases the harness reads the result back through
// Metric.Write, the interface a registry uses)

type c18DescInfo struct {
	name string
	keys []string
}

var c18Descs = map[*prometheus.Desc]c18DescInfo{}

func c18NewDesc(fqName, help string, variableLabels []string, constLabels prometheus.Labels) *prometheus.Desc {
	d := new(prometheus.Desc)
	c18Descs[d] = c18DescInfo{fqName, append([]string(nil), variableLabels...)}
	return d
}

type c18Metric struct {
	desc *prometheus.Desc
	fill func(*dto.Metric)
	vals []string
}

func (m *c18Metric) Desc() *prometheus.Desc { return m.desc }
func (m *c18Metric) Write(out *dto.Metric) error {
	info := c18Descs[m.desc]
	for i, k := range info.keys {
		k, v := k, ""
		if i < len(m.vals) {
			v = m.vals[i]
		}
		out.Label = append(out.Label, &dto.LabelPair{Name: &k, Value: &v})
	}
	for i := 1; i < len(out.Label); i++ { // by name, as the client library does
		for j := i; j > 0 && *out.Label[j].Name < *out.Label[j-1].Name; j-- {
			out.Label[j], out.Label[j-1] = out.Label[j-1], out.Label[j]
		}
	}
	m.fill(out)
	return nil
}

func c18Arity(desc *prometheus.Desc, vals []string) bool { return len(c18Descs[desc].keys) == len(vals) }

func c18NewConstMetric(desc *prometheus.Desc, valueType prometheus.ValueType, value float64, labelValues ...string) (prometheus.Metric, error) {
	if !c18Arity(desc, labelValues) {
		return nil, c18ErrArity{}
	}
	return &c18Metric{desc: desc, vals: labelValues, fill: func(o *dto.Metric) {
		switch valueType {
		case prometheus.CounterValue:
			o.Counter = &dto.Counter{Value: &value}
		case prometheus.GaugeValue:
			o.Gauge = &dto.Gauge{Value: &value}
		default:
			o.Untyped = &dto.Untyped{Value: &value}
		}
	}}, nil
}

type c18ErrArity struct{}

func (c18ErrArity) Error() string { return "inconsistent label cardinality" }

func c18NewConstHistogram(desc *prometheus.Desc, count uint64, sum float64, buckets map[float64]uint64, labelValues ...string) (prometheus.Metric, error) {
	if !c18Arity(desc, labelValues) {
		return nil, c18ErrArity{}
	}
	return &c18Metric{desc: desc, vals: labelValues, fill: func(o *dto.Metric) {
		h := &dto.Histogram{SampleCount: &count, SampleSum: &sum}
		for ub, c := range buckets {
			ub, c := ub, c
			h.Bucket = append(h.Bucket, &dto.Bucket{UpperBound: &ub, CumulativeCount: &c})
		}
		for i := 1; i < len(h.Bucket); i++ {
			for j := i; j > 0 && *h.Bucket[j].UpperBound < *h.Bucket[j-1].UpperBound; j-- {
				h.Bucket[j], h.Bucket[j-1] = h.Bucket[j-1], h.Bucket[j]
			}
		}
		o.Histogram = h
	}}, nil
}

func c18Labels(o *dto.Metric) map[string]string {
	r := map[string]string{}
	for _, l := range o.Label {
		r[l.GetName()] = l.GetValue()
	}
	return r
}

// C18.values: what the exporter hands to the Prometheus client library for a
// sum, a gauge and an explicit-bucket histogram data point equals the SDK's
// aggregated values, with the data point's labels followed by the scope labels
func HarnessC18Values() {
	c18Scheme(false)
	set := attribute.NewSet(attribute.String("a", "1"), attribute.String("b", "2"))
	kv := keyVals{keys: []string{"otel_scope_name"}, vals: []string{"s"}}
	wantLabels := map[string]string{"a": "1", "b": "2", "otel_scope_name": "s"}
	ch := make(chan prometheus.Metric, 4)
	md := metricdata.Metrics{Name: "m", Description: "d"}
	t0 := time.Unix(1, 0)
	kind := vndChoice(4)
	iv, fv := vndI64(), vndF64()
	mono := vndBool()
	var counts [3]uint64
	for i := range counts {
		counts[i] = uint64(vndU32())
	}
	cnt := vndU64()
	switch kind {
	case 0:
		addSumMetric(ch, metricdata.Sum[int64]{IsMonotonic: mono, DataPoints: []metricdata.DataPoint[int64]{{Attributes: set, StartTime: t0, Time: t0, Value: iv}}}, md, "m_total", kv)
	case 1:
		addSumMetric(ch, metricdata.Sum[float64]{IsMonotonic: mono, DataPoints: []metricdata.DataPoint[float64]{{Attributes: set, StartTime: t0, Time: t0, Value: fv}}}, md, "m_total", kv)
	case 2:
		addGaugeMetric(ch, metricdata.Gauge[float64]{DataPoints: []metricdata.DataPoint[float64]{{Attributes: set, StartTime: t0, Time: t0, Value: fv}}}, md, "m", kv)
	case 3:
		addHistogramMetric(ch, metricdata.Histogram[int64]{DataPoints: []metricdata.HistogramDataPoint[int64]{{Attributes: set, StartTime: t0, Time: t0,
			Count: cnt, Sum: iv, Bounds: []float64{0, 10}, BucketCounts: counts[:]}}}, md, "m", kv)
	}
	vndAssert(len(ch) == 1, "one-series-per-data-point")
	if len(ch) != 1 {
		return
	}
	m := <-ch
	var o dto.Metric
	vndAssert(m.Write(&o) == nil, "series-is-well-formed")
	vndReach("written")
	got := c18Labels(&o)
	vndAssert(len(got) == len(wantLabels), "labels-are-the-attributes-plus-scope-labels")
	for k, v := range wantLabels {
		vndAssert(got[k] == v, "labels-are-the-attributes-plus-scope-labels")
	}
	sameF := func(a, b float64) bool { return vndOr(a == b, vndAnd(a != a, b != b)) }
	switch kind {
	case 0, 1:
		want := fv
		if kind == 0 {
			want = float64(iv)
		}
		if mono {
			vndAssert(o.Counter != nil && o.Gauge == nil, "monotonic-sum-is-a-counter")
			if o.Counter != nil {
				vndAssert(sameF(o.Counter.GetValue(), want), "exposed-value-equals-the-aggregated-value")
			}
		} else {
			vndAssert(o.Gauge != nil && o.Counter == nil, "non-monotonic-sum-is-a-gauge")
			if o.Gauge != nil {
				vndAssert(sameF(o.Gauge.GetValue(), want), "exposed-value-equals-the-aggregated-value")
			}
		}
	case 2:
		vndAssert(o.Gauge != nil, "gauge-is-a-gauge")
		if o.Gauge != nil {
			vndAssert(sameF(o.Gauge.GetValue(), fv), "exposed-value-equals-the-aggregated-value")
		}
	case 3:
		h := o.Histogram
		vndAssert(h != nil, "histogram-is-a-histogram")
		if h == nil {
			return
		}
		vndAssert(h.GetSampleCount() == cnt, "histogram-count-equals-the-aggregated-count")
		vndAssert(h.GetSampleSum() == float64(iv), "histogram-sum-equals-the-aggregated-sum")
		// explicit buckets are exposed cumulatively; +Inf is implied by the count
		var finite []*dto.Bucket
		for _, b := range h.Bucket {
			if !math.IsInf(b.GetUpperBound(), 1) {
				finite = append(finite, b)
			}
		}
		vndAssert(len(finite) == 2, "one-bucket-per-boundary")
		if len(finite) == 2 {
			vndAssert(finite[0].GetUpperBound() == 0 && finite[1].GetUpperBound() == 10, "bucket-upper-bounds-are-the-boundaries")
			vndAssert(finite[0].GetCumulativeCount() == counts[0], "bucket-counts-are-cumulative")
			vndAssert(finite[1].GetCumulativeCount() == counts[0]+counts[1], "bucket-counts-are-cumulative")
		}
	}
}

// ---- C18.collect: the collector end to end over a real MeterProvider and the
// exporter's own ManualReader: target_info and otel_scope_info present as
// configured (also after a scrape that came before the exporter was registered
// with a provider), the counter series carries the scope labels and the value
type c18Registerer struct{ c prometheus.Collector }

func (r *c18Registerer) Register(c prometheus.Collector) error  { r.c = c; return nil }
func (r *c18Registerer) MustRegister(...prometheus.Collector)   {}
func (r *c18Registerer) Unregister(prometheus.Collector) bool   { return true }

func c18MetricName(m prometheus.Metric) string {
	if vndSymbolic() {
		return c18Descs[m.Desc()].name
	}
	s := m.Desc().String() // Desc{fqName: "x", help: ...
	const pre = "fqName: \""
	i := strings.Index(s, pre)
	if i < 0 {
		return ""
	}
	s = s[i+len(pre):]
	return s[:strings.IndexByte(s, '"')]
}

func c18Scrape(c prometheus.Collector) map[string][]*dto.Metric {
	ch := make(chan prometheus.Metric, 16)
	c.Collect(ch)
	close(ch)
	out := map[string][]*dto.Metric{}
	for m := range ch {
		var o dto.Metric
		vndAssert(m.Write(&o) == nil, "series-is-well-formed")
		n := c18MetricName(m)
		out[n] = append(out[n], &o)
	}
	return out
}

func HarnessC18Collect() {
	c18Scheme(false)
	noTarget, noScope := vndChoice(2) == 1, vndChoice(2) == 1
	early := vndChoice(2) == 1
	opts := []Option{}
	reg := &c18Registerer{}
	opts = append(opts, WithRegisterer(reg))
	if noTarget {
		opts = append(opts, WithoutTargetInfo())
	}
	if noScope {
		opts = append(opts, WithoutScopeInfo())
	}
	exp, err := New(opts...)
	vndAssert(err == nil && reg.c != nil, "exporter-created")
	if early {
		// a scrape before the exporter is registered with a provider: whatever it
		// exposes, it must not crash or spoil the later scrapes
		c18Scrape(reg.c)
	}
	res := resource.NewSchemaless(attribute.String("service.name", "svc"))
	mp := sdkmetric.NewMeterProvider(sdkmetric.WithReader(exp), sdkmetric.WithResource(res))
	ctr, err := mp.Meter("sc", metric.WithInstrumentationVersion("v1")).Int64Counter("hits")
	vndAssert(err == nil, "instrument-created")
	v := int64(vndInt(0, 1000))
	ctr.Add(context.Background(), v, metric.WithAttributes(attribute.String("a", "1")))
	// a second scope with the same name and version but its own scope attributes
	two := vndChoice(2) == 1
	if two {
		c2, err := mp.Meter("sc", metric.WithInstrumentationVersion("v1"), metric.WithInstrumentationAttributes(attribute.String("team", "x"))).Int64Counter("hits2")
		vndAssert(err == nil, "instrument-created")
		c2.Add(context.Background(), 1)
	}
	for round := 0; round < 2; round++ {
		got := c18Scrape(reg.c)
		vndReach("scraped")
		ti := got["target_info"]
		if noTarget {
			vndAssert(len(ti) == 0, "target-info-absent-when-disabled")
		} else {
			vndAssert(len(ti) == 1, "target-info-present-as-configured")
			if len(ti) == 1 {
				l := c18Labels(ti[0])
				vndAssert(len(l) == 1 && l["service.name"] == "svc", "target-info-carries-the-resource-attributes")
				vndAssert(ti[0].Gauge != nil && ti[0].Gauge.GetValue() == 1, "target-info-is-a-gauge-of-one")
			}
		}
		si := got["otel_scope_info"]
		if noScope {
			vndAssert(len(si) == 0, "scope-info-absent-when-disabled")
		} else {
			wantSI := 1
			if two {
				wantSI = 2
			}
			vndAssert(len(si) == wantSI, "scope-info-present-as-configured")
			teams := 0
			for _, m := range si {
				l := c18Labels(m)
				vndAssert(l["otel_scope_name"] == "sc" && l["otel_scope_version"] == "v1", "scope-info-carries-the-scope")
				if l["team"] == "x" {
					teams++
				}
			}
			if two {
				vndAssert(teams == 1, "scope-info-distinguishes-scopes-by-their-attributes")
			}
		}
		hs := got["hits_total"]
		vndAssert(len(hs) == 1, "one-series-per-data-point")
		if len(hs) == 1 {
			l := c18Labels(hs[0])
			vndAssert(l["a"] == "1", "labels-are-the-attributes-plus-scope-labels")
			if noScope {
				vndAssert(len(l) == 1, "labels-are-the-attributes-plus-scope-labels")
			} else {
				vndAssert(len(l) == 3 && l["otel_scope_name"] == "sc" && l["otel_scope_version"] == "v1", "labels-are-the-attributes-plus-scope-labels")
			}
			vndAssert(hs[0].Counter != nil && hs[0].Counter.GetValue() == float64(v), "exposed-value-equals-the-aggregated-value")
		}
		n := 0
		for _, ms := range got {
			n += len(ms)
		}
		want := 1
		if !noTarget {
			want++
		}
		if !noScope {
			want++
		}
		if two {
			want++ // hits2_total
			if !noScope {
				want++
			}
			vndAssert(len(got["hits2_total"]) == 1, "one-series-per-data-point")
		}
		vndAssert(n == want, "nothing-else-is-exposed")
	}
}

// resource.Default (process / host detection through system calls) is replaced
// by the empty resource inside the engine
func c18EmptyResource() *resource.Resource { return resource.Empty() }

// ---- exponential (native) histograms: model of NewConstNativeHistogram (engine)
type c18Native struct {
	pos, neg    map[int]int64
	count, zero uint64
	sum         float64
	schema      int32
}

var c18Natives = map[prometheus.Metric]*c18Native{}

func c18NewConstNativeHistogram(desc *prometheus.Desc, count uint64, sum float64, positiveBuckets, negativeBuckets map[int]int64, zeroBucket uint64, schema int32, zeroThreshold float64, createdTimestamp time.Time, labelValues ...string) (prometheus.Metric, error) {
	if !c18Arity(desc, labelValues) {
		return nil, c18ErrArity{}
	}
	m := &c18Metric{desc: desc, vals: labelValues, fill: func(o *dto.Metric) {}}
	c18Natives[m] = &c18Native{pos: positiveBuckets, neg: negativeBuckets, count: count, zero: zeroBucket, sum: sum, schema: schema}
	return m, nil
}

func c18DecodeSpans(spans []*dto.BucketSpan, deltas []int64) map[int]int64 {
	out := map[int]int64{}
	idx, cur, di := 0, int64(0), 0
	for si, s := range spans {
		if si == 0 {
			idx = int(s.GetOffset())
		} else {
			idx += int(s.GetOffset())
		}
		for j := 0; j < int(s.GetLength()) && di < len(deltas); j++ {
			cur += deltas[di]
			di++
			if cur != 0 {
				out[idx] = cur
			}
			idx++
		}
	}
	return out
}

func c18ReadNative(m prometheus.Metric) *c18Native {
	if vndSymbolic() {
		return c18Natives[m]
	}
	var o dto.Metric
	if m.Write(&o) != nil || o.Histogram == nil {
		return nil
	}
	h := o.Histogram
	return &c18Native{pos: c18DecodeSpans(h.PositiveSpan, h.PositiveDelta), neg: c18DecodeSpans(h.NegativeSpan, h.NegativeDelta),
		count: h.GetSampleCount(), zero: h.GetZeroCount(), sum: h.GetSampleSum(), schema: h.GetSchema()}
}

// C18.native: an exponential histogram data point is exposed as a native
// histogram whose bucket with index i+1 (both signs) holds the count of the
// exponential bucket with index i, with the same zero count, count, sum and scale
func HarnessC18Native() {
	c18Scheme(false)
	set := attribute.NewSet(attribute.String("a", "1"))
	kv := keyVals{keys: []string{"otel_scope_name"}, vals: []string{"s"}}
	ch := make(chan prometheus.Metric, 2)
	md := metricdata.Metrics{Name: "m", Description: "d"}
	t0 := time.Unix(1, 0)
	po, no := int32(vndChoice(5)-2), int32(vndChoice(5)-2)
	var pc, nc [2]uint64
	for i := range pc {
		pc[i], nc[i] = uint64(1+vndChoice(3)), uint64(1+vndChoice(3))
	}
	zero := uint64(vndChoice(3))
	scale := int32(vndChoice(3) - 1)
	cnt := pc[0] + pc[1] + nc[0] + nc[1] + zero
	addExponentialHistogramMetric(ch, metricdata.ExponentialHistogram[float64]{DataPoints: []metricdata.ExponentialHistogramDataPoint[float64]{{
		Attributes: set, StartTime: t0, Time: t0, Count: cnt, Sum: 7, Scale: scale, ZeroCount: zero,
		PositiveBucket: metricdata.ExponentialBucket{Offset: po, Counts: pc[:]},
		NegativeBucket: metricdata.ExponentialBucket{Offset: no, Counts: nc[:]}}}}, md, "m", kv)
	vndAssert(len(ch) == 1, "one-series-per-data-point")
	if len(ch) != 1 {
		return
	}
	n := c18ReadNative(<-ch)
	vndAssert(n != nil, "series-is-well-formed")
	if n == nil {
		return
	}
	vndReach("written")
	vndAssert(n.count == cnt && n.zero == zero && n.sum == 7 && n.schema == scale, "native-histogram-count-zero-sum-scale-equal-the-aggregated-values")
	vndAssert(len(n.pos) == 2 && len(n.neg) == 2, "native-histogram-has-one-bucket-per-exponential-bucket")
	for i := 0; i < 2; i++ {
		vndAssert(n.pos[int(po)+i+1] == int64(pc[i]), "native-bucket-index-is-exponential-index-plus-one")
		vndAssert(n.neg[int(no)+i+1] == int64(nc[i]), "native-bucket-index-is-exponential-index-plus-one")
	}
}
