package prometheus

import (
	"strings"

	"github.com/prometheus/common/model"
	dto "github.com/prometheus/client_model/go"

	"go.opentelemetry.io/otel/attribute"
	"go.opentelemetry.io/otel/sdk/metric/metricdata"
)

func c18Scheme(legacy bool) {
	if legacy {
		model.NameValidationScheme = model.LegacyValidation //nolint:staticcheck
	} else {
		model.NameValidationScheme = model.UTF8Validation //nolint:staticcheck
	}
	model.NameEscapingScheme = model.UnderscoreEscaping
}

func c18LegalLegacy(s string) bool {
	if len(s) == 0 {
		return false
	}
	ok := true
	for i := 0; i < len(s); i++ {
		c := s[i]
		alpha := vndOr(vndAnd(c >= 'a', c <= 'z'), vndAnd(c >= 'A', c <= 'Z'))
		okc := vndOr(alpha, vndOr(c == '_', c == ':'))
		if i > 0 {
			okc = vndOr(okc, vndAnd(c >= '0', c <= '9'))
		}
		ok = vndAnd(ok, okc)
	}
	return ok
}

// instrument name grammar of the metrics API: letter, then [A-Za-z0-9_.-/]
func c18InstrumentName(s string) bool {
	if len(s) == 0 {
		return true
	}
	ok := true
	for i := 0; i < len(s); i++ {
		c := s[i]
		alpha := vndOr(vndAnd(c >= 'a', c <= 'z'), vndAnd(c >= 'A', c <= 'Z'))
		okc := alpha
		if i > 0 {
			okc = vndOr(alpha, vndOr(vndAnd(c >= '0', c <= '9'), vndOr(vndOr(c == '_', c == '.'), vndOr(c == '-', c == '/'))))
		}
		ok = vndAnd(ok, okc)
	}
	return ok
}

var c18Tails = []string{"", ".seconds", "_seconds", ".total", "_total", ".seconds.total", "seconds_total", "total", "s", ".bytes_total"}

// C18.name
func HarnessC18Name() {
	prefix := vndString(vndParam("N", 2))
	vndAssume(c18InstrumentName(prefix))
	tail := c18Tails[vndChoice(len(c18Tails))]
	name := prefix + tail
	vndAssume(vndAnd(len(name) > 0, c18InstrumentName(name)))
	if len(prefix) == 0 {
		// the whole name is the tail: it must itself start with a letter
		if tail == "" || tail[0] == '.' || tail[0] == '_' {
			return
		}
	}
	unit := []string{"", "s", "By", "1", "unknown"}[vndChoice(5)]
	typ := []dto.MetricType{dto.MetricType_COUNTER, dto.MetricType_GAUGE, dto.MetricType_HISTOGRAM}[vndChoice(3)]
	legacy := vndChoice(2) == 1
	c18Scheme(legacy)
	c := &collector{withoutUnits: vndChoice(2) == 1, withoutCounterSuffixes: vndChoice(2) == 1}
	// the namespace goes through the WithNamespace option (sanitised under the
	// legacy scheme, separated from the name by exactly one underscore)
	nsIn := []string{"", "ns", "ns_", "my.app", "my.app_"}[vndChoice(5)]
	wantNS := ""
	if nsIn != "" {
		c.namespace = WithNamespace(nsIn).apply(config{}).namespace
		wantNS = strings.TrimSuffix(nsIn, "_") + "_"
		if legacy {
			wantNS = strings.ReplaceAll(wantNS, ".", "_")
		}
	}
	got := c.getName(metricdata.Metrics{Name: name, Unit: unit}, &typ)
	vndReach("named")
	vndAssert(len(got) > 0, "metric-name-not-empty")
	if legacy {
		vndAssert(c18LegalLegacy(got), "metric-name-legal-under-the-legacy-scheme")
	}
	counter := typ == dto.MetricType_COUNTER && !c.withoutCounterSuffixes
	base := got
	if counter {
		vndAssert(strings.HasSuffix(got, "_total"), "counter-name-ends-with-total")
		base = strings.TrimSuffix(got, "_total")
		vndAssert(!strings.HasSuffix(base, "_total"), "total-suffix-not-duplicated")
		vndAssert(!strings.HasSuffix(base, ".total"), "total-suffix-not-duplicated")
	}
	if suffix, ok := unitSuffixes[unit]; ok && !c.withoutUnits {
		vndAssert(strings.HasSuffix(base, suffix), "name-ends-with-unit-suffix-before-total")
		rest := strings.TrimSuffix(base, suffix)
		rest = strings.TrimRight(rest, "_.")
		vndAssert(!strings.HasSuffix(rest, suffix), "unit-suffix-not-duplicated")
	}
	if nsIn != "" {
		vndAssert(strings.HasPrefix(got, wantNS), "namespace-prefix-present")
	}
}

// C18.attrs
var c18Keys = []attribute.Key{"a.b", "a.c", "a/b", "a_b", "x", "9z"}

func HarnessC18Attrs() {
	legacy := vndChoice(2) == 1
	c18Scheme(legacy)
	n := 1 + vndChoice(vndParam("N", 3))
	var kvs []attribute.KeyValue
	used := map[attribute.Key]bool{}
	for i := 0; i < n; i++ {
		k := c18Keys[vndChoice(len(c18Keys))]
		if used[k] {
			return
		}
		used[k] = true
		kvs = append(kvs, k.Int(i+1))
	}
	keys, values := getAttrs(attribute.NewSet(kvs...))
	vndReach("attrs")
	vndAssert(len(keys) == len(values), "label-names-and-values-same-length")
	seen := map[string]bool{}
	for _, k := range keys {
		vndAssert(!seen[k], "label-names-unique")
		seen[k] = true
		if legacy {
			vndAssert(c18LegalLegacy(k), "label-name-legal-under-the-legacy-scheme")
		}
	}
	if !legacy {
		vndAssert(len(keys) == n, "utf8-scheme-keeps-every-attribute")
		return
	}
	// every attribute value appears exactly once, under its sanitised key, values sorted and ';'-joined
	for _, kv := range kvs {
		i := int(kv.Value.AsInt64()) - 1 // (NewSet sorted the slice in place)
		want := model.EscapeName(string(kv.Key), model.UnderscoreEscaping)
		found := 0
		for j, k := range keys {
			if k != want {
				continue
			}
			parts := strings.Split(values[j], ";")
			for pi, p := range parts {
				if p == string(rune('0'+i+1)) {
					found++
				}
				if pi > 0 {
					vndAssert(parts[pi-1] <= p, "colliding-values-merged-sorted")
				}
			}
		}
		vndAssert(found == 1, "every-attribute-value-kept-exactly-once-under-its-sanitised-key")
	}
}

// C18.validate
func HarnessC18Validate() {
	c := &collector{metricFamilies: map[string]*dto.MetricFamily{}}
	types := []dto.MetricType{dto.MetricType_COUNTER, dto.MetricType_GAUGE}
	helps := []string{"h1", "h2"}
	var firstType dto.MetricType
	firstHelp := ""
	for i := 0; i < 3; i++ {
		t := types[vndChoice(2)]
		h := helps[vndChoice(2)]
		drop, help := c.validateMetrics("m", h, &t)
		if i == 0 {
			firstType, firstHelp = t, h
			vndAssert(!drop && help == "", "first-definition-accepted")
			continue
		}
		vndAssert(drop == (t != firstType), "conflicting-type-dropped-first-type-wins")
		if !drop {
			if h != firstHelp {
				vndAssert(help == firstHelp, "help-unified-to-first-definition")
			} else {
				vndAssert(help == "", "same-help-unchanged")
			}
		}
	}
	vndReach("validated")
}
