package log

import (
	"context"
	"unicode/utf8"

	"go.opentelemetry.io/otel/log"
	"go.opentelemetry.io/otel/sdk/resource"
)

// reference truncation (DESIGN A.2)
func c17RefTruncate(limit int, s string) string {
	if limit < 0 || len(s) <= limit {
		return s
	}
	var out []byte
	count := 0
	for i := 0; i < len(s) && count < limit; {
		_, size := utf8.DecodeRuneInString(s[i:])
		if size == 1 && s[i] >= utf8.RuneSelf {
			i++
			continue
		}
		out = append(out, s[i:i+size]...)
		i += size
		count++
	}
	return string(out)
}

func HarnessC17Truncate() {
	s := vndString(vndParam("N", 4))
	limit := vndChoice(vndParam("L", 3)+2) - 1
	got := truncate(limit, s)
	want := c17RefTruncate(limit, s)
	if limit >= 0 && len(s) > limit {
		vndReach("cut")
		vndAssert(utf8.RuneCountInString(got) <= limit, "truncate-at-most-limit-characters")
		vndAssert(utf8.ValidString(got), "truncate-result-is-valid-utf8")
	}
	vndAssert(len(got) == len(want), "truncate-equals-reference-length")
	if len(got) == len(want) {
		vndAssert(got == want, "truncate-equals-reference")
	}
}

// ---- model of the record's attributes (DESIGN A.3)

type c17Model struct {
	keys    []string
	vals    []log.Value // as offered (limits are checked on the record's side)
	dropped int
	offered int
}

func (m *c17Model) reset() { m.keys, m.vals, m.dropped, m.offered = nil, nil, 0, 0 }

func (m *c17Model) add(countLimit int, kv log.KeyValue) {
	m.offered++
	for i := range m.keys {
		if m.keys[i] == kv.Key {
			m.vals[i] = kv.Value
			m.dropped++ // the superseded value is the dropped one
			return
		}
	}
	if countLimit >= 0 && len(m.keys) >= countLimit {
		m.dropped++
		return
	}
	m.keys = append(m.keys, kv.Key)
	m.vals = append(m.vals, kv.Value)
}

// every string reachable from v holds at most limit characters and is the
// reference truncation of the offered one
func c17CheckValue(limit int, got, offered log.Value, tag string) {
	vndAssert(got.Kind() == offered.Kind(), tag+"-value-kind-kept")
	if got.Kind() != offered.Kind() {
		return
	}
	switch got.Kind() {
	case log.KindString:
		g, w := got.AsString(), c17RefTruncate(limit, offered.AsString())
		if limit >= 0 {
			vndAssert(utf8.RuneCountInString(g) <= limit, tag+"-string-within-length-limit")
		}
		vndAssert(len(g) == len(w), tag+"-string-is-reference-truncation")
		if len(g) == len(w) {
			vndAssert(g == w, tag+"-string-is-reference-truncation")
		}
	case log.KindInt64:
		vndAssert(got.AsInt64() == offered.AsInt64(), tag+"-int-value-kept")
	case log.KindSlice:
		gs, os := got.AsSlice(), offered.AsSlice()
		vndAssert(len(gs) == len(os), tag+"-slice-length-kept")
		if len(gs) == len(os) {
			for i := range gs {
				c17CheckValue(limit, gs[i], os[i], tag+"-nested")
			}
		}
	case log.KindMap:
		gm, om := got.AsMap(), offered.AsMap()
		vndAssert(len(gm) == len(om), tag+"-map-length-kept")
		if len(gm) == len(om) {
			for i := range gm {
				vndAssert(gm[i].Key == om[i].Key, tag+"-map-key-kept")
				c17CheckValue(limit, gm[i].Value, om[i].Value, tag+"-nested")
			}
		}
	}
}

// copies of the offered values are kept by the model because the record may
// truncate nested slices and maps in place
func c17Value(kinds int) (log.Value, log.Value) {
	switch vndChoice(kinds) {
	case 0:
		n := vndI64()
		return log.Int64Value(n), log.Int64Value(n)
	case 1:
		s := "x" + vndStringN(1)
		return log.StringValue(s), log.StringValue(s)
	case 2:
		s := vndStringN(2)
		return log.SliceValue(log.StringValue(s)), log.SliceValue(log.StringValue(s))
	default:
		s := "y" + vndStringN(1)
		return log.MapValue(log.String("m", s)), log.MapValue(log.String("m", s))
	}
}

func c17Compare(r *Record, m *c17Model, countLimit, lenLimit int) {
	var got []log.KeyValue
	r.WalkAttributes(func(kv log.KeyValue) bool { got = append(got, kv); return true })
	vndAssert(r.AttributesLen() == len(got), "attributes-len-equals-walked")
	vndAssert(len(got) == len(m.keys), "attribute-count-equals-model")
	vndAssert(r.DroppedAttributes() == m.dropped, "dropped-count-equals-model")
	vndAssert(r.AttributesLen()+r.DroppedAttributes() == m.offered, "count-plus-dropped-equals-offered")
	if countLimit >= 0 {
		vndAssert(r.AttributesLen() <= countLimit, "at-most-count-limit-attributes")
	}
	for i := range got {
		for j := 0; j < i; j++ {
			vndAssert(got[i].Key != got[j].Key, "each-key-once")
		}
	}
	if len(got) != len(m.keys) {
		return
	}
	for i := range got {
		vndAssert(got[i].Key == m.keys[i], "earliest-keys-retained-in-order")
		if got[i].Key == m.keys[i] {
			c17CheckValue(lenLimit, got[i].Value, m.vals[i], "attr")
		}
	}
}

// C17.seq: K Set/Add calls with 1..A attributes each. Keys come from a small
// alphabet that shifts by one per call, so that duplicates inside a call,
// overwrites of stored keys and new keys all occur.
func HarnessC17Seq() {
	// count limit 0 is carved out (known finding, see HarnessC17LimitZero)
	countLimit := []int{-1, 1, 2}[vndChoice(3)]
	var lenLimit int
	if vndParam("LLN", 2) == 2 {
		lenLimit = []int{-1, 1}[vndChoice(2)]
	} else {
		lenLimit = vndChoice(3) - 1
	}
	r := &Record{attributeCountLimit: countLimit, attributeValueLengthLimit: lenLimit}
	m := &c17Model{}
	keys := []string{"a", "b", "c", "d"}
	calls := vndParam("K", 2)
	kinds := vndParam("KINDS", 2)
	nk := vndParam("NK", 2)
	for c := 0; c < calls; c++ {
		n := 1 + vndChoice(vndParam("A", 2))
		attrs := make([]log.KeyValue, n)
		offered := make([]log.KeyValue, n)
		for i := range attrs {
			k := keys[(c+vndChoice(nk))%len(keys)]
			v, o := c17Value2(kinds)
			attrs[i] = log.KeyValue{Key: k, Value: v}
			offered[i] = log.KeyValue{Key: k, Value: o}
		}
		if vndChoice(2) == 0 {
			m.reset()
			for _, kv := range offered {
				m.add(countLimit, kv)
			}
			r.SetAttributes(attrs...)
		} else {
			for _, kv := range offered {
				m.add(countLimit, kv)
			}
			r.AddAttributes(attrs...)
			vndReach("add")
		}
	}
	if m.dropped > 0 {
		vndReach("dropped")
	}
	c17Compare(r, m, countLimit, lenLimit)
}

// c17Byte: one payload byte; with CLS=2 it is restricted to two UTF-8 classes
// (ASCII or an invalid byte) to keep the quick tier small
func c17Byte() string {
	b := vndStringN(1)
	if vndParam("CLS", 0) == 2 {
		vndAssume(vndOr(b[0] < 0x80, b[0] >= 0xF8))
	}
	return b
}

func c17Value2(kinds int) (log.Value, log.Value) {
	switch vndChoice(kinds) {
	case 0:
		s := "x" + c17Byte()
		return log.StringValue(s), log.StringValue(s)
	case 1:
		s := "y" + c17Byte()
		return log.MapValue(log.String("m", s)), log.MapValue(log.String("m", s))
	case 2:
		s := vndStringN(2)
		return log.SliceValue(log.StringValue(s)), log.SliceValue(log.StringValue(s))
	default:
		n := vndI64()
		return log.Int64Value(n), log.Int64Value(n)
	}
}

// C17.inline: more attributes than the 5-slot inline array, then overwrites
// landing in the inline part and in the overflow slice
func HarnessC17Inline() {
	countLimit := []int{-1, 6, 7}[vndChoice(3)]
	lenLimit := vndChoice(2) // 0, 1
	r := &Record{attributeCountLimit: countLimit, attributeValueLengthLimit: lenLimit}
	m := &c17Model{}
	keys := []string{"k0", "k1", "k2", "k3", "k4", "k5", "k6", "k7"}
	n := 6 + vndChoice(2)
	var attrs, offered []log.KeyValue
	for i := 0; i < n; i++ {
		s := "z\xc3\xa9" // concrete: 'z' + U+00E9
		attrs = append(attrs, log.String(keys[i], s))
		offered = append(offered, log.String(keys[i], s))
	}
	if vndChoice(2) == 0 {
		r.SetAttributes(attrs...)
	} else {
		r.AddAttributes(attrs[:3]...)
		r.AddAttributes(attrs[3:]...)
	}
	for _, kv := range offered {
		m.add(countLimit, kv)
	}
	// overwrite one existing key (front or back) and add a new one
	k := keys[vndChoice(n)]
	s := "w" + vndStringN(1)
	r.AddAttributes(log.String(k, s), log.String("new", s))
	m.add(countLimit, log.String(k, s))
	m.add(countLimit, log.String("new", s))
	vndReach("inline")
	c17Compare(r, m, countLimit, lenLimit)
}

// C17.clone: a cloned record shares no mutable state with the original
func HarnessC17Clone() {
	r := &Record{attributeCountLimit: -1, attributeValueLengthLimit: -1}
	n := 4 + vndChoice(4) // straddles the inline array
	keys := []string{"k0", "k1", "k2", "k3", "k4", "k5", "k6", "k7"}
	for i := 0; i < n; i++ {
		r.AddAttributes(log.Int64(keys[i], int64(i)))
	}
	c := r.Clone()
	// edit one of them (symbolic choice of side and key)
	k := keys[vndChoice(n)]
	v := vndI64()
	vndAssume(v >= 100)
	editClone := vndChoice(2) == 0
	if editClone {
		c.AddAttributes(log.Int64(k, v), log.Int64("extra", v))
	} else {
		r.AddAttributes(log.Int64(k, v), log.Int64("extra", v))
	}
	other := r
	if !editClone {
		other = &c
	}
	vndReach("clone")
	vndAssert(other.AttributesLen() == n, "clone-isolated-length")
	i := 0
	other.WalkAttributes(func(kv log.KeyValue) bool {
		vndAssert(kv.Key == keys[i], "clone-isolated-keys")
		vndAssert(kv.Value.AsInt64() == int64(i), "clone-isolated-values")
		i++
		return true
	})
}

// C17.emit: attributes carried by the API record (duplicates included) go
// through the same limits when the SDK record is built
func HarnessC17Emit() {
	countLimit := []int{-1, 1, 2}[vndChoice(3)]
	lenLimit := vndChoice(3) - 1
	p := &LoggerProvider{attributeCountLimit: countLimit, attributeValueLengthLimit: lenLimit}
	l := &logger{provider: p}
	var ar log.Record
	m := &c17Model{}
	keys := []string{"a", "b"}
	n := 1 + vndChoice(3)
	for i := 0; i < n; i++ {
		k := keys[vndChoice(2)]
		v, o := c17Value(2)
		ar.AddAttributes(log.KeyValue{Key: k, Value: v})
		m.add(countLimit, log.KeyValue{Key: k, Value: o})
	}
	r := l.newRecord(context.Background(), ar)
	vndReach("emit")
	c17Compare(&r, m, countLimit, lenLimit)
}

// Demonstrator of a recorded finding: WithAttributeCountLimit(0) is documented
// as "no attributes will be recorded" but behaves as unlimited.
func HarnessC17LimitZero() {
	p := &LoggerProvider{attributeCountLimit: 0, attributeValueLengthLimit: -1}
	l := &logger{provider: p}
	var ar log.Record
	ar.AddAttributes(log.Int64("a", vndI64()))
	r := l.newRecord(context.Background(), ar)
	if vndChoice(2) == 1 {
		r.SetAttributes(log.Int64("b", 1), log.Int64("c", 2))
	}
	vndReach("limit-zero")
	vndAssert(r.AttributesLen() == 0, "count-limit-zero-records-nothing")
}

// C17.provider: the limits as configured through the provider options reach
// the records a logger emits (including a value-length limit of exactly 0)
type c17Capture struct {
	got   []Record
	extra []log.KeyValue // attributes the processor adds while the record is emitted
}

func (c *c17Capture) OnEmit(_ context.Context, r *Record) error {
	r.AddAttributes(c.extra...)
	c.got = append(c.got, r.Clone())
	return nil
}
func (c *c17Capture) Shutdown(context.Context) error   { return nil }
func (c *c17Capture) ForceFlush(context.Context) error { return nil }

func HarnessC17Provider() {
	vndUnsetEnv(envarAttrCntLim)
	vndUnsetEnv(envarAttrValLenLim)
	countLimit := []int{-1, 1, 2}[vndChoice(3)]
	lenLimit := vndChoice(4) - 1 // -1 (unlimited), 0, 1, 2
	cap := &c17Capture{}
	p := NewLoggerProvider(WithResource(resource.Empty()), WithProcessor(cap),
		WithAttributeCountLimit(countLimit), WithAttributeValueLengthLimit(lenLimit))
	var ar log.Record
	m := &c17Model{}
	keys := []string{"a", "b"}
	n := vndChoice(3) // 0..2 attributes on the emitted record
	for i := 0; i < n; i++ {
		k := keys[vndChoice(2)]
		v, o := c17Value(2)
		ar.AddAttributes(log.KeyValue{Key: k, Value: v})
		m.add(countLimit, log.KeyValue{Key: k, Value: o})
	}
	// and 0..2 more added by the processor while emitting (one call)
	ne := vndChoice(3)
	var extraModel []log.KeyValue
	for i := 0; i < ne; i++ {
		k := []string{"a", "c"}[i]
		v, o := c17Value(2)
		cap.extra = append(cap.extra, log.KeyValue{Key: k, Value: v})
		extraModel = append(extraModel, log.KeyValue{Key: k, Value: o})
	}
	for _, kv := range extraModel {
		m.add(countLimit, kv)
	}
	p.Logger("l").Emit(context.Background(), ar)
	vndAssert(len(cap.got) == 1, "record-reaches-the-processor")
	if len(cap.got) != 1 {
		return
	}
	vndReach("emitted")
	c17Compare(&cap.got[0], m, countLimit, lenLimit)
}
