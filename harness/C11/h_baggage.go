package baggage

import (
	"net/url"
	"unicode/utf8"
)

// ---- C11.escape: valueEscape is invertible and always yields a legal W3C value
func HarnessC11Escape() {
	v := vndString(vndParam("N", 4))
	vndAssume(utf8.ValidString(v))
	e := valueEscape(v)
	vndReach("escaped")
	vndAssert(validateValue(e), "escaped-value-is-a-legal-w3c-value")
	u, err := url.PathUnescape(e)
	vndAssert(err == nil, "escaped-value-unescapes")
	if err == nil {
		vndAssert(len(u) == len(v), "unescape-of-escape-is-identity")
		if len(u) == len(v) {
			vndAssert(u == v, "unescape-of-escape-is-identity")
		}
	}
}

func c11Token(n int) string {
	k := vndStringN(n)
	vndAssume(validateKey(k))
	return k
}

func c11Value(max int) string {
	v := vndString(max)
	vndAssume(utf8.ValidString(v))
	return v
}

type c11Want struct {
	key, value string
	hasProp    bool
	pkey       string
	pvalue     string
	pHasValue  bool
}

func c11Check(b Baggage, want []c11Want, tag string) {
	vndAssert(b.Len() == len(want), tag+"-same-members")
	for _, w := range want {
		m := b.Member(w.key)
		vndAssert(m.Key() == w.key, tag+"-member-present")
		vndAssert(len(m.Value()) == len(w.value), tag+"-same-value")
		if len(m.Value()) == len(w.value) {
			vndAssert(m.Value() == w.value, tag+"-same-value")
		}
		ps := m.Properties()
		if w.hasProp {
			vndAssert(len(ps) == 1, tag+"-same-properties")
			if len(ps) == 1 {
				vndAssert(ps[0].Key() == w.pkey, tag+"-same-property-key")
				pv, has := ps[0].Value()
				vndAssert(has == w.pHasValue, tag+"-same-property-value")
				if has && w.pHasValue {
					vndAssert(len(pv) == len(w.pvalue), tag+"-same-property-value")
					if len(pv) == len(w.pvalue) {
						vndAssert(pv == w.pvalue, tag+"-same-property-value")
					}
				}
			}
		} else {
			vndAssert(len(ps) == 0, tag+"-same-properties")
		}
	}
}

// ---- C11.roundtrip: New -> String -> Parse is the identity
func HarnessC11RoundTrip() {
	n := 1 + vndChoice(vndParam("M", 2))
	var ms []Member
	var want []c11Want
	vmax := vndParam("VN", 2)
	for i := 0; i < n; i++ {
		w := c11Want{key: c11Token(1 + vndChoice(2)), value: c11Value(vmax)}
		for _, o := range want {
			vndAssume(o.key != w.key)
		}
		var props []Property
		switch vndChoice(3) {
		case 1:
			w.hasProp, w.pkey = true, c11Token(1)
			p, err := NewKeyProperty(w.pkey)
			vndAssume(err == nil)
			props = append(props, p)
		case 2:
			w.hasProp, w.pkey, w.pHasValue, w.pvalue = true, c11Token(1), true, c11Value(1)
			p, err := NewKeyValuePropertyRaw(w.pkey, w.pvalue)
			vndAssume(err == nil)
			props = append(props, p)
		}
		m, err := NewMemberRaw(w.key, w.value, props...)
		vndAssert(err == nil, "constructor-accepts-token-key-and-utf8-value")
		if err != nil {
			return
		}
		ms = append(ms, m)
		want = append(want, w)
	}
	b, err := New(ms...)
	vndAssert(err == nil, "new-accepts-valid-members")
	if err != nil {
		return
	}
	c11Check(b, want, "constructed")
	hdr := b.String()
	p, err := Parse(hdr)
	vndReach("roundtrip")
	vndAssert(err == nil, "serialised-baggage-parses")
	if err == nil {
		c11Check(p, want, "roundtrip")
	}
}

// ---- C11.parse: arbitrary bytes
func HarnessC11Parse() {
	s := vndString(vndParam("N", 5))
	b, err := Parse(s)
	if err != nil {
		vndReach("reject")
		return
	}
	if b.Len() > 0 {
		vndReach("accept")
	}
	for _, m := range b.Members() {
		vndAssert(validateKey(m.Key()), "parsed-key-is-a-token")
		vndAssert(utf8.ValidString(m.Value()), "parsed-value-is-valid-utf8")
		for _, p := range m.Properties() {
			if v, ok := p.Value(); ok {
				vndAssert(utf8.ValidString(v), "parsed-property-value-is-valid-utf8")
			}
		}
	}
	// stable under re-serialising and re-parsing
	out := b.String()
	b2, err2 := Parse(out)
	vndAssert(err2 == nil, "parsed-baggage-reserialises-to-parsable-header")
	if err2 != nil {
		return
	}
	vndAssert(b2.Len() == b.Len(), "reparse-same-members")
	for _, m := range b.Members() {
		m2 := b2.Member(m.Key())
		vndAssert(m2.Key() == m.Key(), "reparse-same-members")
		vndAssert(len(m2.Value()) == len(m.Value()), "reparse-same-values")
		if len(m2.Value()) == len(m.Value()) {
			vndAssert(m2.Value() == m.Value(), "reparse-same-values")
		}
	}
	vndAssert(b2.String() == out, "reserialisation-is-a-fixed-point")
}

// duplicate keys resolve to the last one
func HarnessC11Dup() {
	k := c11Token(1)
	v1, v2 := vndStringN(1), vndStringN(1)
	vndAssume(vndAnd(validateValue(v1), validateValue(v2)))
	vndAssume(vndAnd(v1[0] != '%', v2[0] != '%'))
	b, err := Parse(k + "=" + v1 + "," + k + "=" + v2)
	vndReach("dup")
	vndAssert(err == nil, "duplicate-keys-accepted")
	if err == nil {
		vndAssert(b.Len() == 1, "duplicate-keys-resolve-to-one-member")
		vndAssert(b.Member(k).Value() == v2, "duplicate-keys-last-one-wins")
	}
}

// ---- C11.limits (constants scaled by a source transform: members 180->2,
// member bytes 4096->6, total bytes 8192->12)
func HarnessC11ParseLimits() {
	// k=v members of symbolic value length, joined by commas
	n := 1 + vndChoice(3)
	hdr := ""
	longest := 0
	keys := []string{"a", "b", "c"}
	for i := 0; i < n; i++ {
		vl := vndChoice(6)
		m := keys[i] + "=" + "vvvvvv"[:vl]
		if len(m) > longest {
			longest = len(m)
		}
		if i > 0 {
			hdr += ","
		}
		hdr += m
	}
	_, err := Parse(hdr)
	within := n <= maxMembers && longest <= maxBytesPerMembers && len(hdr) <= maxBytesPerBaggageString
	if within {
		vndReach("within")
	} else {
		vndReach("exceeds")
	}
	vndAssert((err == nil) == within, "parse-succeeds-iff-within-the-three-limits")
}

// what New accepts, Parse accepts
func HarnessC11NewLimits() {
	n := 1 + vndChoice(3)
	keys := []string{"a", "b", "c"}
	var ms []Member
	for i := 0; i < n; i++ {
		m, err := NewMemberRaw(keys[i], "vvvvvvvvvvvv"[:vndChoice(vndParam("VL", 6))])
		vndAssume(err == nil)
		ms = append(ms, m)
	}
	b, err := New(ms...)
	if err != nil {
		vndReach("rejected")
		return
	}
	vndReach("accepted")
	_, perr := Parse(b.String())
	vndAssert(perr == nil, "constructor-enforces-the-limits-the-parser-enforces")
	vndAssert(b.Len() <= maxMembers, "constructor-enforces-member-count-limit")
	vndAssert(len(b.String()) <= maxBytesPerBaggageString, "constructor-enforces-total-size-limit")
}

// ---- C11.immutable: SetMember / DeleteMember never alter the receiver
func HarnessC11Immutable() {
	var b Baggage
	n := vndChoice(3)
	keys := []string{"a", "b"}
	for i := 0; i < n; i++ {
		m, _ := NewMemberRaw(keys[i], "v"+keys[i])
		b, _ = b.SetMember(m)
	}
	held := b // a copy held elsewhere (e.g. in a context)
	before := b.String()
	k := []string{"a", "b", "c"}[vndChoice(3)]
	switch vndChoice(3) {
	case 0:
		m, _ := NewMemberRaw(k, vndStringN(1))
		if m.hasData {
			nb, err := b.SetMember(m)
			vndAssert(err == nil, "setmember-accepts-valid-member")
			vndAssert(nb.Member(k).Key() == k, "setmember-result-has-member")
		}
	case 1:
		nb := b.DeleteMember(k)
		vndAssert(nb.Member(k).Key() == "", "deletemember-result-lacks-member")
		// delete then set on the emptied value
		m, _ := NewMemberRaw("z", "1")
		nb2, _ := nb.SetMember(m)
		vndAssert(nb.Member("z").Key() == "", "setmember-does-not-alter-emptied-receiver")
		vndAssert(nb2.Member("z").Key() == "z", "setmember-result-has-member")
	case 2:
		ps := b.Member(k).Properties()
		if len(ps) > 0 {
			ps[0] = Property{}
		}
	}
	vndReach("immutable")
	vndAssert(b.Len() == n, "receiver-unchanged")
	vndAssert(held.Len() == n, "held-copy-unchanged")
	vndAssert(len(b.String()) == len(before), "receiver-unchanged")
	for i := 0; i < n; i++ {
		vndAssert(held.Member(keys[i]).Value() == "v"+keys[i], "held-copy-unchanged")
	}
}

// C11.dupatlimit (scaled limits): duplicate keys do not count against the member
// limit and resolve to the last occurrence, also when the number of distinct
// keys is exactly the limit
func HarnessC11DupAtLimit() {
	keys := []string{"a", "b", "c"}
	n := 2 + vndChoice(3) // 2..4 list entries
	hdr := ""
	last := map[string]string{}
	for i := 0; i < n; i++ {
		k := keys[vndChoice(3)]
		v := []string{"1", "2", "3", "4"}[i]
		if i > 0 {
			hdr += ","
		}
		hdr += k + "=" + v
		last[k] = v
	}
	b, err := Parse(hdr)
	if len(last) > maxMembers {
		vndReach("too-many-distinct")
		vndAssert(err != nil, "parse-succeeds-iff-within-the-three-limits")
		return
	}
	if len(hdr) > maxBytesPerBaggageString {
		return
	}
	vndReach("within")
	vndAssert(err == nil, "duplicates-do-not-count-against-the-member-limit")
	if err != nil {
		return
	}
	vndAssert(b.Len() == len(last), "duplicate-keys-resolve-to-one-member")
	for k, v := range last {
		vndAssert(b.Member(k).Value() == v, "duplicate-keys-resolve-to-the-last")
	}
}
