package propagation

import (
	"context"
	"net/http"
	"unicode/utf8"

	"go.opentelemetry.io/otel/baggage"
)

// C11.propagator: Inject followed by Extract with the baggage propagator is the
// identity on any baggage the constructor accepts
func HarnessC11Propagator() {
	n := vndChoice(3) // 0..2 members
	keys := []string{"a", "b"}
	var ms []baggage.Member
	var vals []string
	for i := 0; i < n; i++ {
		v := vndString(vndParam("VN", 2))
		vndAssume(utf8.ValidString(v))
		m, err := baggage.NewMemberRaw(keys[i], v)
		vndAssert(err == nil, "constructor-accepts-token-key-and-utf8-value")
		if err != nil {
			return
		}
		ms = append(ms, m)
		vals = append(vals, v)
	}
	b, err := baggage.New(ms...)
	vndAssert(err == nil, "new-accepts-valid-members")
	if err != nil {
		return
	}
	ctx := baggage.ContextWithBaggage(context.Background(), b)
	var carrier TextMapCarrier = MapCarrier{}
	if vndChoice(2) == 1 {
		carrier = HeaderCarrier(http.Header{})
	}
	Baggage{}.Inject(ctx, carrier)
	if n == 0 {
		vndReach("empty")
		vndAssert(len(carrier.Keys()) == 0, "empty-baggage-injects-nothing")
	}
	// the receiving side starts from a context holding other baggage
	other, _ := baggage.NewMemberRaw("z", "9")
	ob, _ := baggage.New(other)
	parent := baggage.ContextWithBaggage(context.Background(), ob)
	out := baggage.FromContext(Baggage{}.Extract(parent, carrier))
	if n == 0 {
		vndAssert(out.Len() == 1 && out.Member("z").Value() == "9", "extract-without-header-keeps-the-parent-context")
		return
	}
	vndReach("roundtrip")
	vndAssert(out.Len() == n, "inject-extract-same-members")
	for i := 0; i < n; i++ {
		got := out.Member(keys[i]).Value()
		vndAssert(len(got) == len(vals[i]), "inject-extract-same-value")
		if len(got) == len(vals[i]) {
			vndAssert(got == vals[i], "inject-extract-same-value")
		}
	}
}
