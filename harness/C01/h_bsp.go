package trace

import (
	"context"
	"errors"
	"sync"
	"sync/atomic"
	"time"

	"go.opentelemetry.io/otel/trace"
)

// exporter model: logs every batch, checks exclusivity, is "slow" (yields
// inside the export) and may fail
type c01Exporter struct {
	in        int32      // number of goroutines inside ExportSpans
	overlap   bool
	batches   [][]string
	maxBatch  int
	fail      bool
	afterStop bool // an export began after Shutdown had returned
	stopped   *bool
	shutdowns int
}

var errC01 = errors.New("export failed")

func (e *c01Exporter) ExportSpans(ctx context.Context, spans []ReadOnlySpan) error {
	// the batch counts as handed to the exporter at the instant of the call
	// (the wording of C01), not when the slow export completes: the ledger is
	// updated before the first scheduling point of the call
	vndGhost(func() {
		names := make([]string, len(spans))
		for i, s := range spans {
			names[i] = s.Name()
		}
		e.batches = append(e.batches, names)
		if len(spans) > e.maxBatch {
			e.maxBatch = len(spans)
		}
	})
	if atomic.AddInt32(&e.in, 1) != 1 {
		e.overlap = true
	}
	if vndGhostLoad(e.stopped) {
		e.afterStop = true
	}
	vndYield() // a slow exporter
	atomic.AddInt32(&e.in, -1)
	if e.fail {
		return errC01
	}
	return nil
}

func (e *c01Exporter) Shutdown(context.Context) error {
	vndGhost(func() { e.shutdowns++ })
	return nil
}

func (e *c01Exporter) count(name string) int {
	n := 0
	vndGhost(func() {
		for _, b := range e.batches {
			for _, s := range b {
				if s == name {
					n++
				}
			}
		}
	})
	return n
}

func c01Span(name string, sampled bool) ReadOnlySpan {
	flags := trace.TraceFlags(0)
	if sampled {
		flags = trace.FlagsSampled
	}
	return &snapshot{name: name, spanContext: trace.NewSpanContext(trace.SpanContextConfig{TraceID: trace.TraceID{1}, SpanID: trace.SpanID{1}, TraceFlags: flags})}
}

type c01Cfg struct {
	queue, batch int
	blocking     bool
}

func c01New(e *c01Exporter) (*batchSpanProcessor, c01Cfg) {
	cfg := c01Cfg{queue: 1 + vndChoice(2), batch: 1 + vndChoice(2), blocking: vndChoice(2) == 1}
	opts := []BatchSpanProcessorOption{WithMaxQueueSize(cfg.queue), WithMaxExportBatchSize(cfg.batch), WithBatchTimeout(time.Second), WithExportTimeout(0)}
	if cfg.blocking {
		opts = append(opts, WithBlocking())
	}
	return NewBatchSpanProcessor(e, opts...).(*batchSpanProcessor), cfg
}

func c01Common(e *c01Exporter, cfg c01Cfg, names []string) {
	vndAssert(!e.overlap, "exporter-never-invoked-by-two-goroutines-at-once")
	vndAssert(e.maxBatch <= cfg.batch, "no-export-batch-larger-than-configured-maximum")
	vndAssert(!e.afterStop, "nothing-exported-after-shutdown-returned")
	for _, n := range names {
		vndAssert(e.count(n) <= 1, "no-span-exported-twice")
	}
}

// ---- C01.enq: sequential enqueue model (no worker)
func HarnessC01Enqueue() {
	q := 1 + vndChoice(3)
	bsp := &batchSpanProcessor{queue: make(chan ReadOnlySpan, q), o: BatchSpanProcessorOptions{MaxQueueSize: q}}
	k := 1 + vndChoice(4)
	accepted, sampled := 0, 0
	var order []string
	names := []string{"s0", "s1", "s2", "s3"}
	for i := 0; i < k; i++ {
		smp := vndChoice(2) == 1
		ok := bsp.enqueueDrop(context.Background(), c01Span(names[i], smp))
		if smp {
			sampled++
		}
		want := smp && accepted < q
		vndAssert(ok == want, "non-blocking-enqueue-accepts-sampled-spans-until-full")
		if ok {
			accepted++
			order = append(order, names[i])
		}
	}
	vndReach("enqueued")
	vndAssert(len(bsp.queue) == accepted, "queue-holds-accepted-spans")
	vndAssert(int(bsp.dropped) == sampled-accepted, "dropped-counts-exactly-the-rejected-sampled-spans")
	for _, n := range order {
		s := <-bsp.queue
		vndAssert(s.Name() == n, "queue-order-is-call-order")
	}
}

// ---- C01.seq: one goroutine ends spans, flushes, shuts down
func HarnessC01Seq() {
	stopped := false
	e := &c01Exporter{stopped: &stopped, fail: vndChoice(vndParam("FAILS", 2)) == 1}
	bsp, cfg := c01New(e)
	names := []string{"s0", "s1", "s2"}
	unsampled := 3 - vndChoice(vndParam("UNS", 4)) // index of an unsampled span, 3 = none
	for i, n := range names {
		bsp.OnEnd(c01Span(n, i != unsampled))
	}
	ferr := bsp.ForceFlush(context.Background())
	if ferr == nil {
		vndReach("flushed")
		exported := 0
		for i, n := range names {
			if i == unsampled {
				vndAssert(e.count(n) == 0, "unsampled-span-never-exported")
				continue
			}
			exported += e.count(n)
		}
		want := 3
		if unsampled < 3 {
			want = 2
		}
		vndAssert(exported+int(atomic.LoadUint32(&bsp.dropped)) == want, "after-flush-every-sampled-span-exported-once-or-counted-as-dropped")
		if cfg.blocking {
			vndAssert(atomic.LoadUint32(&bsp.dropped) == 0, "blocking-mode-never-drops")
		}
	}
	bsp.OnEnd(c01Span("late", true))
	serr := bsp.Shutdown(context.Background())
	vndGhostStore(&stopped, true)
	vndAssert(serr == nil, "shutdown-returns-nil")
	vndReach("shutdown")
	if !e.fail {
		vndAssert(e.count("late")+int(atomic.LoadUint32(&bsp.dropped)) >= 1, "span-ended-before-shutdown-exported-or-dropped")
	}
	vndAssert(e.shutdowns == 1, "exporter-shut-down-once")
	bsp.OnEnd(c01Span("after", true))
	vndAssert(bsp.ForceFlush(context.Background()) == nil, "flush-after-shutdown-nil")
	vndAssert(bsp.Shutdown(context.Background()) == nil, "second-shutdown-nil")
	vndAssert(e.count("after") == 0, "span-ended-after-shutdown-not-exported")
	c01Common(e, cfg, append(names, "late", "after"))
}

// ---- C01.conc: producers racing ForceFlush / Shutdown
func HarnessC01Conc() {
	vndRaceOn(true)
	stopped := false
	e := &c01Exporter{stopped: &stopped}
	bsp, cfg := c01New(e)
	scenario := vndChoice(vndParam("SCN", 2))
	names := []string{"a0", "a1", "b0"}
	var returned [3]bool // ghost: OnEnd of span i has returned
	var wg sync.WaitGroup
	produce := func(idx ...int) {
		defer wg.Done()
		for _, i := range idx {
			bsp.OnEnd(c01Span(names[i], true))
			vndGhostStore(&returned[i], true)
		}
	}
	var before [3]bool
	snapshotBefore := func() {
		for i := range before {
			before[i] = vndGhostLoad(&returned[i])
		}
	}
	checkVisible := func(tag string) {
		for i, n := range names {
			if before[i] {
				vndAssert(e.count(n) == 1 || atomic.LoadUint32(&bsp.dropped) > 0, tag)
				if cfg.blocking {
					vndAssert(e.count(n) == 1, tag)
				}
			}
		}
	}
	switch scenario {
	case 0: // one producer of two spans racing ForceFlush
		wg.Add(2)
		go produce(0, 1)
		go func() {
			defer wg.Done()
			snapshotBefore()
			if bsp.ForceFlush(context.Background()) == nil {
				vndReach("flush-nil")
				checkVisible("spans-ended-before-flush-are-exported-when-flush-returns-nil")
			}
		}()
		wg.Wait()
	case 1: // two producers racing Shutdown
		wg.Add(3)
		go produce(0)
		go produce(2)
		go func() {
			defer wg.Done()
			snapshotBefore()
			if bsp.Shutdown(context.Background()) == nil {
				vndGhostStore(&stopped, true)
				vndReach("shutdown-nil")
				checkVisible("spans-ended-before-shutdown-are-exported-when-shutdown-returns-nil")
			}
		}()
		wg.Wait()
	}
	if scenario == 0 {
		bsp.Shutdown(context.Background())
		vndGhostStore(&stopped, true)
	}
	vndReach("joined")
	c01Common(e, cfg, names)
}

// ---- C01.flushcancel (candidate 19): ForceFlush whose context is cancelled
// while its marker waits for room in a full queue
func HarnessC01FlushCancel() {
	stopped := false
	e := &c01Exporter{stopped: &stopped}
	bsp := NewBatchSpanProcessor(e, WithMaxQueueSize(1), WithMaxExportBatchSize(1), WithBatchTimeout(time.Second), WithExportTimeout(0)).(*batchSpanProcessor)
	bsp.OnEnd(c01Span("s0", true)) // accepted: the queue was empty
	vndAssert(atomic.LoadUint32(&bsp.dropped) == 0, "first-span-accepted")
	ctx, cancel := context.WithCancel(context.Background())
	var wg sync.WaitGroup
	wg.Add(1)
	go func() {
		defer wg.Done()
		cancel()
	}()
	err := bsp.ForceFlush(ctx)
	if err == nil {
		vndReach("flush-nil")
		vndAssert(e.count("s0") == 1, "spans-ended-before-flush-are-exported-when-flush-returns-nil")
	} else {
		vndReach("flush-error")
	}
	wg.Wait()
	bsp.Shutdown(context.Background())
	vndGhostStore(&stopped, true)
	c01Common(e, c01Cfg{queue: 1, batch: 1}, []string{"s0"})
}

// ---- C01.flushshutdown (candidate 18): ForceFlush overlapped by Shutdown
func HarnessC01FlushShutdown() {
	stopped := false
	e := &c01Exporter{stopped: &stopped}
	bsp := NewBatchSpanProcessor(e, WithMaxQueueSize(2), WithMaxExportBatchSize(1), WithBatchTimeout(time.Second), WithExportTimeout(0)).(*batchSpanProcessor)
	bsp.OnEnd(c01Span("s0", true))
	var wg sync.WaitGroup
	wg.Add(1)
	go func() {
		defer wg.Done()
		bsp.Shutdown(context.Background())
		vndGhostStore(&stopped, true)
	}()
	if bsp.ForceFlush(context.Background()) == nil {
		vndReach("flush-nil")
		vndAssert(e.count("s0") == 1, "spans-ended-before-flush-are-exported-when-flush-overlapped-by-shutdown-returns-nil")
	}
	wg.Wait()
	vndAssert(e.count("s0") == 1, "span-exported-once-shutdown-returned")
	c01Common(e, c01Cfg{queue: 2, batch: 1}, []string{"s0"})
}

// the sequential scenario once more, for the tier in which the batch timer may fire
func HarnessC01SeqTimer() { HarnessC01Seq() }

// ---- C01.shutdownshutdown: Shutdown called from two goroutines: whichever
// call returns nil, the spans ended before it are with the exporter and no
// export begins afterwards
func HarnessC01ShutdownShutdown() {
	stopped := false
	e := &c01Exporter{stopped: &stopped}
	bsp := NewBatchSpanProcessor(e, WithMaxQueueSize(2), WithMaxExportBatchSize(1+vndChoice(2)), WithBatchTimeout(time.Second), WithExportTimeout(0)).(*batchSpanProcessor)
	bsp.OnEnd(c01Span("s0", true))
	bsp.OnEnd(c01Span("s1", true))
	var wg sync.WaitGroup
	wg.Add(2)
	for i := 0; i < 2; i++ {
		go func() {
			defer wg.Done()
			if bsp.Shutdown(context.Background()) == nil {
				vndGhostStore(&stopped, true)
				vndReach("shutdown-nil")
				vndAssert(e.count("s0") == 1 && e.count("s1") == 1, "spans-ended-before-shutdown-are-exported-when-any-shutdown-call-returns-nil")
			}
		}()
	}
	wg.Wait()
	vndReach("joined")
	vndAssert(e.shutdowns == 1, "exporter-shut-down-exactly-once")
	c01Common(e, c01Cfg{queue: 2, batch: 2}, []string{"s0", "s1"})
}

// ---- C01.timeout: a per-export deadline (ExportTimeout > 0) that may pass
// during a slow export; the exporter honours its context
type c01TimeoutExporter struct {
	c01Exporter
	timedOut int
}

func (e *c01TimeoutExporter) ExportSpans(ctx context.Context, spans []ReadOnlySpan) error {
	err := e.c01Exporter.ExportSpans(ctx, spans)
	if ctx.Err() != nil {
		vndGhost(func() { e.timedOut++ })
		return ctx.Err()
	}
	return err
}

func HarnessC01ExportTimeout() {
	stopped := false
	e := &c01TimeoutExporter{c01Exporter: c01Exporter{stopped: &stopped}}
	blocking := vndChoice(2) == 1
	opts := []BatchSpanProcessorOption{WithMaxQueueSize(2), WithMaxExportBatchSize(1), WithBatchTimeout(time.Hour), WithExportTimeout(time.Second)}
	if blocking {
		opts = append(opts, WithBlocking())
	}
	bsp := NewBatchSpanProcessor(e, opts...).(*batchSpanProcessor)
	bsp.OnEnd(c01Span("s0", true))
	bsp.OnEnd(c01Span("s1", true))
	if vndChoice(2) == 1 {
		if bsp.ForceFlush(context.Background()) == nil {
			vndReach("flush-nil")
			for _, n := range []string{"s0", "s1"} {
				vndAssert(e.count(n) == 1 || atomic.LoadUint32(&bsp.dropped) > 0, "spans-ended-before-flush-are-exported-when-flush-returns-nil")
			}
		}
	}
	bsp.OnEnd(c01Span("s2", true))
	if bsp.Shutdown(context.Background()) == nil {
		vndGhostStore(&stopped, true)
		vndReach("shutdown-nil")
		for _, n := range []string{"s0", "s1", "s2"} {
			vndAssert(e.count(n) == 1 || atomic.LoadUint32(&bsp.dropped) > 0, "spans-ended-before-shutdown-are-exported-when-shutdown-returns-nil")
			if blocking {
				vndAssert(e.count(n) == 1, "blocking-mode-drops-nothing")
			}
		}
	}
	if e.timedOut > 0 {
		vndReach("export-timed-out")
	}
	bsp.OnEnd(c01Span("s3", true)) // after shutdown: ignored
	vndAssert(e.count("s3") == 0, "nothing-exported-after-shutdown-returned")
	c01Common(&e.c01Exporter, c01Cfg{queue: 2, batch: 1}, []string{"s0", "s1", "s2", "s3"})
}

// ---- C01.providerflush: the same overlap through the TracerProvider:
// provider.ForceFlush overlapped by provider.Shutdown
func HarnessC01ProviderFlushShutdown() {
	stopped := false
	e := &c01Exporter{stopped: &stopped}
	bsp := NewBatchSpanProcessor(e, WithMaxQueueSize(2), WithMaxExportBatchSize(1), WithBatchTimeout(time.Second), WithExportTimeout(0)).(*batchSpanProcessor)
	p := &TracerProvider{}
	sps := spanProcessorStates{newSpanProcessorState(bsp)}
	p.spanProcessors.Store(&sps)
	bsp.OnEnd(c01Span("s0", true))
	var wg sync.WaitGroup
	wg.Add(1)
	go func() {
		defer wg.Done()
		if p.Shutdown(context.Background()) == nil {
			vndGhostStore(&stopped, true)
		}
	}()
	if p.ForceFlush(context.Background()) == nil {
		vndReach("flush-nil")
		vndAssert(e.count("s0") == 1, "spans-ended-before-flush-are-exported-when-provider-flush-overlapped-by-shutdown-returns-nil")
	}
	wg.Wait()
	vndAssert(e.count("s0") == 1, "span-exported-once-shutdown-returned")
	c01Common(e, c01Cfg{queue: 2, batch: 1}, []string{"s0"})
}

// the deadline scenario in its smallest form, with two timer firings (the
// deadline and whatever timer the code arms after it): one span, ForceFlush,
// Shutdown
func HarnessC01ExportTimeoutTwice() {
	stopped := false
	e := &c01TimeoutExporter{c01Exporter: c01Exporter{stopped: &stopped}}
	bsp := NewBatchSpanProcessor(e, WithMaxQueueSize(2), WithMaxExportBatchSize(1), WithBatchTimeout(time.Hour), WithExportTimeout(time.Second)).(*batchSpanProcessor)
	bsp.OnEnd(c01Span("s0", true))
	if bsp.ForceFlush(context.Background()) == nil {
		vndReach("flush-nil")
		vndAssert(e.count("s0") == 1 || atomic.LoadUint32(&bsp.dropped) > 0, "spans-ended-before-flush-are-exported-when-flush-returns-nil")
	}
	if bsp.Shutdown(context.Background()) == nil {
		vndGhostStore(&stopped, true)
		vndReach("shutdown-nil")
	}
	c01Common(&e.c01Exporter, c01Cfg{queue: 2, batch: 1}, []string{"s0"})
}
