package metric

// C07.config: a validated exponential-histogram configuration starts within the
// documented scale range and has room for at least one bucket
func HarnessC07Config() {
	a := AggregationBase2ExponentialHistogram{MaxSize: int32(vndI64()), MaxScale: int32(vndI64()), NoMinMax: vndBool()}
	if a.err() != nil {
		vndReach("rejected")
		return
	}
	vndReach("accepted")
	vndAssert(a.MaxScale <= 20, "validated-max-scale-at-most-20")
	vndAssert(a.MaxScale >= -10, "validated-max-scale-at-least-minus-10")
	vndAssert(a.MaxSize >= 1, "validated-max-size-positive")
}
