package aggregate

// C07 harnesses: explicit-bucket and base-2 exponential histograms.

import (
	"context"
	"math"

	"go.opentelemetry.io/otel/attribute"
)

func c07Finite(f float64) bool { return vndAnd(f == f, vndAnd(f <= math.MaxFloat64, f >= -math.MaxFloat64)) }

// ---- C07.explicit: one measure() step of histValues[float64] from an
// arbitrary valid state; bounds symbolic, strictly increasing, finite
func HarnessC07ExplicitF64() {
	nb := vndChoice(vndParam("NB", 3) + 1)
	bounds := make([]float64, nb)
	for i := range bounds {
		bounds[i] = vndF64()
		vndAssume(c07Finite(bounds[i]))
		if i > 0 {
			vndAssume(bounds[i-1] < bounds[i])
		}
	}
	s := newHistValues[float64](bounds, false, 0, dropReservoir[float64])
	set := attribute.NewSet(attribute.Int("k", 1))
	var pre *buckets[float64]
	var preCounts []uint64
	var preMin, preMax, preTotal float64
	var preCount uint64
	if vndChoice(2) == 1 {
		pre = newBuckets[float64](set, nb+1)
		pre.res = dropReservoir[float64](set)
		for i := range pre.counts {
			c := vndU64()
			vndAssume(c <= 1<<32)
			pre.counts[i] = c
			pre.count += c
		}
		vndAssume(pre.count > 0)
		pre.min, pre.max, pre.total = vndF64(), vndF64(), vndF64()
		vndAssume(vndAnd(c07Finite(pre.min), vndAnd(c07Finite(pre.max), pre.min <= pre.max)))
		vndAssume(c07Finite(pre.total))
		s.values[set.Equivalent()] = pre
		preCounts = append(preCounts, pre.counts...)
		preMin, preMax, preTotal, preCount = pre.min, pre.max, pre.total, pre.count
		vndReach("existing")
	}
	v := vndF64()
	vndAssume(c07Finite(v))
	s.measure(context.Background(), v, set, nil)
	b := s.values[set.Equivalent()]
	vndAssert(b != nil, "explicit-entry-exists")
	if b == nil {
		return
	}
	vndAssert(len(b.counts) == nb+1, "one-more-bucket-than-boundaries")
	if len(b.counts) != nb+1 {
		return
	}
	var sum uint64
	for i := range b.counts {
		// bucket i is (bounds[i-1], bounds[i]]
		in := true
		if i > 0 {
			in = vndAnd(in, bounds[i-1] < v)
		}
		if i < nb {
			in = vndAnd(in, v <= bounds[i])
		}
		var before uint64
		if pre != nil {
			before = preCounts[i]
		}
		vndAssert(b.counts[i] == before+vndIteU64(in, 1, 0), "value-counted-in-bucket-lower-exclusive-upper-inclusive")
		sum += b.counts[i]
	}
	vndAssert(sum == b.count, "bucket-counts-sum-to-count")
	vndAssert(b.count == preCount+1, "count-incremented")
	if pre != nil {
		vndAssert(b.min == vndIteF64(v < preMin, v, preMin), "exact-minimum")
		vndAssert(b.max == vndIteF64(v > preMax, v, preMax), "exact-maximum")
		vndAssert(b.total == preTotal+v, "exact-sum")
	} else {
		vndReach("new")
		vndAssert(vndAnd(b.min == v, b.max == v), "exact-minimum-maximum-of-first-value")
		vndAssert(b.total == v, "exact-sum")
	}
}

// int64 instance with concrete fractional and negative bounds; the reference
// compares in integers (v <= floor(bound))
func HarnessC07ExplicitI64() {
	bounds := []float64{-7.5, -2.5, 0, 2.5, 7}
	floors := []int64{-8, -3, 0, 2, 7}
	s := newHistValues[int64](bounds, false, 0, dropReservoir[int64])
	set := attribute.NewSet(attribute.Int("k", 1))
	k := 1 + vndChoice(2)
	var want [6]uint64
	var total int64
	for j := 0; j < k; j++ {
		v := vndI64()
		vndAssume(vndAnd(v >= -1000, v <= 1000))
		s.measure(context.Background(), v, set, nil)
		total += v
		for i := 0; i <= len(bounds); i++ {
			in := true
			if i > 0 {
				in = vndAnd(in, v > floors[i-1])
			}
			if i < len(bounds) {
				in = vndAnd(in, v <= floors[i])
			}
			want[i] += vndIteU64(in, 1, 0)
		}
	}
	b := s.values[set.Equivalent()]
	vndReach("measured")
	vndAssert(len(b.counts) == len(bounds)+1, "one-more-bucket-than-boundaries")
	for i := range b.counts {
		vndAssert(b.counts[i] == want[i], "value-counted-in-bucket-lower-exclusive-upper-inclusive")
	}
	vndAssert(b.count == uint64(k), "count-exact")
	vndAssert(b.total == total, "exact-sum")
}

// newHistValues sorts a copy of the boundaries
func HarnessC07Bounds() {
	in := []float64{vndF64(), vndF64(), vndF64()}
	for _, f := range in {
		vndAssume(c07Finite(f))
	}
	orig := append([]float64(nil), in...)
	s := newHistValues[float64](in, false, 0, dropReservoir[float64])
	vndReach("sorted")
	vndAssert(vndAnd(s.bounds[0] <= s.bounds[1], s.bounds[1] <= s.bounds[2]), "boundaries-sorted")
	for i := range in {
		vndAssert(in[i] == orig[i], "callers-boundaries-not-modified")
	}
}

// ---- exponential histogram

// c07Pow2(e) = 2^e as a float64 built from bits: 0 below 2^-1074, +Inf above 2^1023
func c07Pow2(e int64) float64 {
	normal := math.Float64frombits(uint64(e+1023) << 52)
	sub := math.Float64frombits(uint64(1) << uint64(e+1074))
	r := vndIteF64(e >= -1022, normal, sub)
	r = vndIteF64(e < -1074, 0, r)
	return vndIteF64(e > 1023, math.Inf(1), r)
}

// C07.getbin: for EVERY positive finite float64 and every scale -10..0,
// getBin(v) = i with 2^(i*2^k) < v <= 2^((i+1)*2^k), k = -scale
func HarnessC07GetBin() {
	v := vndF64()
	vndAssume(vndAnd(v > 0, v <= math.MaxFloat64))
	scale := -int32(vndChoice(11))
	p := &expoHistogramDataPoint[float64]{scale: scale}
	i := int64(p.getBin(v))
	k := uint(-scale)
	lo := c07Pow2(i << k)
	hi := c07Pow2((i + 1) << k)
	vndReach("bin")
	vndAssert(lo < v, "bin-lower-bound-exclusive")
	vndAssert(v <= hi, "bin-upper-bound-inclusive")
}

// positive scales: exact powers of two only (the logarithm is then concrete)
func HarnessC07GetBinPow2() {
	e := int64(vndChoice(41)) - 20 // 2^-20 .. 2^20
	scale := int32(1 + vndChoice(vndParam("SMAX", 20)))
	p := &expoHistogramDataPoint[float64]{scale: scale}
	v := math.Ldexp(1, int(e))
	i := int64(p.getBin(v))
	// base^i < v <= base^(i+1), base = 2^(2^-scale): i+1 = e * 2^scale exactly
	vndReach("bin")
	vndAssert(i+1 == e<<uint(scale), "power-of-two-lands-on-upper-inclusive-boundary")
}

type c07Rec struct {
	neg bool
	abs float64
}

func c07CheckPoint(p *expoHistogramDataPoint[float64], maxSize int, maxScale int32, recs []c07Rec, zeros uint64, tag string) {
	var pos, neg uint64
	for _, c := range p.posBuckets.counts {
		pos += c
	}
	for _, c := range p.negBuckets.counts {
		neg += c
	}
	vndAssert(p.count == p.zeroCount+pos+neg, tag+"-count-is-zero-plus-positive-plus-negative")
	vndAssert(len(p.posBuckets.counts) <= maxSize, tag+"-at-most-max-size-positive-buckets")
	vndAssert(len(p.negBuckets.counts) <= maxSize, tag+"-at-most-max-size-negative-buckets")
	vndAssert(p.scale <= maxScale, tag+"-scale-not-above-configured-maximum")
	vndAssert(p.scale >= expoMinScale, tag+"-scale-not-below-minus-ten")
	vndAssert(p.zeroCount == zeros, tag+"-zero-count-exact")
	// every recorded value sits in its bin at the final scale, with the right multiplicity
	for a := range recs {
		bk := &p.posBuckets
		if recs[a].neg {
			bk = &p.negBuckets
		}
		bin := p.getBin(recs[a].abs)
		var want uint64
		for b := range recs {
			if recs[b].neg == recs[a].neg {
				want += vndIteU64(p.getBin(recs[b].abs) == bin, 1, 0)
			}
		}
		idx := int64(bin) - int64(bk.startBin)
		inWin := vndAnd(idx >= 0, idx < int64(len(bk.counts)))
		vndAssert(inWin, tag+"-recorded-value-inside-bucket-window")
		var got uint64
		for j := range bk.counts {
			got += vndIteU64(idx == int64(j), bk.counts[j], 0)
		}
		vndAssert(got == want, tag+"-bucket-holds-exactly-the-values-of-its-range")
	}
}

// C07.record: K records of arbitrary finite floats from a new data point
func HarnessC07Record() {
	maxSize := 1 + vndChoice(vndParam("MS", 2))
	maxScale := -int32(vndChoice(vndParam("NS", 2))) * 10 // 0 or -10 (NS=2); 0 only (NS=1)
	p := newExpoHistogramDataPoint[float64](attribute.NewSet(), maxSize, maxScale, false, false)
	var recs []c07Rec
	var zeros uint64
	k := vndParam("K", 2)
	prevScale := p.scale
	for j := 0; j < k; j++ {
		v := vndF64()
		vndAssume(c07Finite(v))
		before := p.count
		p.record(v)
		if p.count == before+1 {
			if v == 0 {
				zeros++
			} else {
				recs = append(recs, c07Rec{v < 0, math.Abs(v)})
			}
		}
		vndAssert(p.scale <= prevScale, "scale-only-decreases")
		prevScale = p.scale
	}
	vndReach("recorded")
	c07CheckPoint(p, maxSize, maxScale, recs, zeros, "record")
	if p.count != uint64(k) {
		// scale underflow: the measurement was reported to the error handler and dropped
		vndAssert(maxSize <= 2, "measurement-dropped-only-on-scale-underflow")
	}
}

// powers of two: longer sequences with rescaling and window growth
func HarnessC07RecordPow2() {
	maxSize := 2 + vndChoice(vndParam("MS", 3))
	p := newExpoHistogramDataPoint[float64](attribute.NewSet(), maxSize, 0, false, false)
	var recs []c07Rec
	k := vndParam("K", 5)
	span := vndParam("SPAN", 9)
	for j := 0; j < k; j++ {
		e := vndInt(0, span-1) // symbolic exponent: v = 2^e built from bits
		v := math.Float64frombits(uint64(e+1023) << 52)
		if vndParam("NEG", 0) == 1 && vndChoice(2) == 1 {
			v = -v
		}
		p.record(v)
		recs = append(recs, c07Rec{v < 0, math.Abs(v)})
	}
	vndReach("recorded")
	c07CheckPoint(p, maxSize, 0, recs, 0, "pow2")
	vndAssert(p.count == uint64(k), "every-finite-measurement-counted")
}

// the same with enumerated exponents (longer sequences; decisions are
// enumerated choices rather than solver-decided)
func HarnessC07RecordPow2Enum() {
	maxSize := 2 + vndChoice(vndParam("MS", 3))
	p := newExpoHistogramDataPoint[float64](attribute.NewSet(), maxSize, 0, false, false)
	var recs []c07Rec
	k := vndParam("K", 5)
	span := vndParam("SPAN", 9)
	for j := 0; j < k; j++ {
		v := math.Ldexp(1, vndChoice(span))
		p.record(v)
		recs = append(recs, c07Rec{false, v})
	}
	vndReach("recorded")
	c07CheckPoint(p, maxSize, 0, recs, 0, "pow2")
	vndAssert(p.count == uint64(k), "every-finite-measurement-counted")
}

// the library's portable math.Frexp (go/src/math/frexp.go and bits.go), copied
// so that the engine's bit-level summary of math.Frexp can be compared with it
func c07LibFrexp(f float64) (frac float64, exp int) {
	switch {
	case f == 0:
		return f, 0
	case math.IsInf(f, 0) || math.IsNaN(f):
		return f, 0
	}
	// normalize
	if math.Abs(f) < 2.2250738585072014e-308 {
		f, exp = f*(1<<52), -52
	}
	x := math.Float64bits(f)
	exp += int((x>>52)&0x7ff) - 1022
	x &^= 0x7ff << 52
	x |= 1022 << 52
	frac = math.Float64frombits(x)
	return
}

// translator validation: the Frexp summary used by getBin agrees with the
// library source on every float64 (one query with a single fp.mul)
func HarnessC07FrexpSummary() {
	f := vndF64()
	gf, ge := math.Frexp(f)
	wf, we := c07LibFrexp(f)
	vndReach("frexp")
	vndAssert(math.Float64bits(gf) == math.Float64bits(wf) || (gf != gf && wf != wf), "frexp-summary-fraction-equals-library")
	vndAssert(ge == we, "frexp-summary-exponent-equals-library")
}
