package PKGNAME

// with symbolic length limits, to exercise the <= n boundaries that the
// literals 255 / 240 / 13 hide at tractable string lengths
func HarnessC03KeyPart() {
	k := vndString(vndParam("N", 4))
	n := vndChoice(4)
	got := checkKeyPart(k, n)
	vndAssert(got == c03RefSimple(k, n), "checkKeyPart-equals-grammar")
	got2 := checkKeyTenant(k, n)
	vndAssert(got2 == c03RefTenant(k, n), "checkKeyTenant-equals-grammar")
	if got {
		vndReach("accept")
	}
}

