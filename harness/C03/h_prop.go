package propagation

import (
	"context"

	"go.opentelemetry.io/otel/trace"
)

func c03RefLowerHex(c byte) bool {
	return vndOr(vndAnd(c >= '0', c <= '9'), vndAnd(c >= 'a', c <= 'f'))
}

func c03RefHexRun(s string) bool {
	ok := true
	for i := 0; i < len(s); i++ {
		ok = vndAnd(ok, c03RefLowerHex(s[i]))
	}
	return ok
}

func c03HexVal(c byte) byte {
	return vndIteU8(c <= '9', c-'0', c-'a'+10)
}

// c03RefTraceparent: the W3C grammar for the versions the code accepts.
func c03RefTraceparent(h string) bool {
	if len(h) < 55 {
		return false
	}
	ok := vndAnd(c03RefHexRun(h[0:2]), vndAnd(h[2] == '-', vndAnd(c03RefHexRun(h[3:35]), vndAnd(h[35] == '-',
		vndAnd(c03RefHexRun(h[36:52]), vndAnd(h[52] == '-', c03RefHexRun(h[53:55])))))))
	notFF := vndNot(vndAnd(h[0] == 'f', h[1] == 'f'))
	ok = vndAnd(ok, notFF)
	v0 := vndAnd(h[0] == '0', h[1] == '0')
	if len(h) == 56 {
		// a lone trailing delimiter is tolerated for every version (the
		// repository's own test "B3 format ending in dash" documents it)
		ok = vndAnd(ok, h[55] == '-')
	} else if len(h) > 56 {
		ok = vndAnd(ok, vndAnd(vndNot(v0), h[55] == '-'))
	}
	return ok
}

// HarnessC03Extract: arbitrary traceparent bytes of every length up to N.
func HarnessC03Extract() {
	c03CheckExtract(vndString(vndParam("N", 8)))
}

// HarnessC03ExtractFull: full-length headers built from a valid one.
// mode 0: version, flags and the three delimiters are arbitrary bytes, tail of 0..1 arbitrary bytes.
// mode 1: one arbitrary byte at a symbolic position of the ids, optionally with the other id all zero.
func HarnessC03ExtractFull() {
	base := []byte("00-0af7651916cd43dd8448eb211c80319c-b7ad6b7169203331-01")
	if vndChoice(2) == 0 {
		for _, i := range []int{0, 1, 2, 35, 52, 53, 54} {
			base[i] = vndU8()
		}
		c03CheckExtract(string(base) + vndString(1))
		return
	}
	switch vndChoice(3) {
	case 1:
		copy(base[3:35], "00000000000000000000000000000000")
	case 2:
		copy(base[36:52], "0000000000000000")
	}
	base[3+vndChoice(49)] = vndU8()
	c03CheckExtract(string(base))
}

func c03CheckExtract(h string) {
	c := MapCarrier{traceparentHeader: h}
	sc := c03Extract(c)
	if !sc.IsValid() {
		vndReach("rejected")
		vndAssert(sc.Equal(trace.SpanContext{}), "invalid-extract-yields-empty-context")
		return
	}
	vndReach("accepted")
	vndAssert(c03RefTraceparent(h), "accepted-traceparent-conforms-to-grammar")
	if len(h) < 55 {
		return
	}
	tid, sid := sc.TraceID(), sc.SpanID()
	for i := 0; i < 16; i++ {
		vndAssert(tid[i] == c03HexVal(h[3+2*i])<<4|c03HexVal(h[4+2*i]), "trace-id-decoded-exactly")
	}
	for i := 0; i < 8; i++ {
		vndAssert(sid[i] == c03HexVal(h[36+2*i])<<4|c03HexVal(h[37+2*i]), "span-id-decoded-exactly")
	}
	vndAssert(sc.IsSampled() == (c03HexVal(h[54])&1 == 1), "sampled-is-bit-0")
	vndAssert(sc.IsRemote(), "extracted-context-is-remote")
	// re-inject: canonical version-00 header with the same ids
	out := MapCarrier{}
	TraceContext{}.Inject(trace.ContextWithSpanContext(context.Background(), sc), out)
	o := out[traceparentHeader]
	vndAssert(len(o) == 55, "reinject-length-55")
	if len(o) == 55 {
		vndAssert(vndAnd(o[0] == '0', o[1] == '0'), "reinject-version-00")
		vndAssert(c03RefTraceparent(o), "reinject-conforms-to-grammar")
		vndAssert(o[3:52] == h[3:52], "reinject-same-ids")
		vndAssert(o[53] == '0', "reinject-flags-high-nibble-zero")
		vndAssert((o[54] == '1') == sc.IsSampled(), "reinject-sampled-flag")
	}
}

// a bad tracestate never invalidates a good traceparent
func HarnessC03ExtractState() {
	a, b, f := vndStringN(1), vndStringN(1), vndStringN(1)
	vndAssume(vndAnd(c03RefHexRun(a), vndAnd(c03RefHexRun(b), c03RefHexRun(f))))
	h := "00-0af7651916cd43dd8448eb211c8031" + a + "9-00f067aa0ba902b" + b + "-0" + f
	t := vndString(vndParam("TN", 4))
	sc1 := c03Extract(MapCarrier{traceparentHeader: h})
	sc2 := c03Extract(MapCarrier{traceparentHeader: h, tracestateHeader: t})
	vndAssert(sc1.IsValid() == sc2.IsValid(), "tracestate-does-not-change-validity")
	if !sc1.IsValid() {
		return
	}
	vndReach("valid")
	vndAssert(sc1.TraceID() == sc2.TraceID(), "tracestate-does-not-change-trace-id")
	vndAssert(sc1.SpanID() == sc2.SpanID(), "tracestate-does-not-change-span-id")
	vndAssert(sc1.TraceFlags() == sc2.TraceFlags(), "tracestate-does-not-change-flags")
	ts, err := trace.ParseTraceState(t)
	if err != nil {
		vndReach("bad-tracestate")
		vndAssert(sc2.TraceState().Len() == 0, "bad-tracestate-gives-empty-tracestate")
	} else {
		vndAssert(sc2.TraceState().String() == ts.String(), "good-tracestate-kept")
	}
}

// Inject then Extract is the identity on valid span contexts.
func HarnessC03RoundTrip() {
	var scc trace.SpanContextConfig
	// ids: all bytes zero except one arbitrary byte at a symbolic position
	// (POS=2: first or last byte; POS=16: any byte), so that "all zero" and
	// "a single non-zero byte" are both covered
	np := vndParam("POS", 2) // number of byte positions tried per id
	scc.TraceID[(vndChoice(np)*15)%16] = vndU8()
	scc.SpanID[(vndChoice(np)*7)%8] = vndU8()
	scc.TraceFlags = trace.TraceFlags(vndU8())
	n := vndChoice(3)
	ts := trace.TraceState{}
	for i := 0; i < n; i++ {
		var err error
		v := vndStringN(1)
		vndAssume(vndAnd(vndAnd(v[0] > 0x20, v[0] <= 0x7e), vndAnd(v[0] != ',', v[0] != '=')))
		ts, err = ts.Insert([]string{"a", "b@c"}[i], v)
		vndAssume(err == nil)
	}
	scc.TraceState = ts
	sc := trace.NewSpanContext(scc)
	vndAssume(sc.IsValid())
	c := MapCarrier{}
	TraceContext{}.Inject(trace.ContextWithSpanContext(context.Background(), sc), c)
	ctx := TraceContext{}.Extract(context.Background(), c)
	got := trace.SpanContextFromContext(ctx)
	vndReach("roundtrip")
	vndAssert(got.IsValid(), "roundtrip-valid")
	vndAssert(got.TraceID() == sc.TraceID(), "roundtrip-trace-id")
	vndAssert(got.SpanID() == sc.SpanID(), "roundtrip-span-id")
	vndAssert(got.IsSampled() == sc.IsSampled(), "roundtrip-sampled")
	vndAssert(got.TraceState().String() == sc.TraceState().String(), "roundtrip-tracestate")
	vndAssert(got.IsRemote(), "roundtrip-remote")
	vndAssert(got.TraceFlags() == sc.TraceFlags()&trace.FlagsSampled, "roundtrip-only-sampled-flag")
}

// C03.extractinto: the public Extract applied to a context that already
// carries a span context: a malformed (or absent) traceparent leaves it
// untouched, a well-formed one replaces it by a valid remote span context
func HarnessC03ExtractInto() {
	existing := trace.NewSpanContext(trace.SpanContextConfig{TraceID: trace.TraceID{1}, SpanID: trace.SpanID{2}, TraceFlags: trace.FlagsSampled})
	ctx0 := trace.ContextWithSpanContext(context.Background(), existing)
	c := MapCarrier{}
	wellFormed := false
	switch vndChoice(3) {
	case 0: // no header
	case 1: // short garbage
		c[traceparentHeader] = vndString(vndParam("GN", 3))
	case 2: // the right shape with three arbitrary characters
		a, b, f := vndStringN(1), vndStringN(1), vndStringN(1)
		h := "00-0af7651916cd43dd8448eb211c8031" + a + "9-00f067aa0ba902b" + b + "-0" + f
		c[traceparentHeader] = h
	}
	// which headers the decoder accepts is the subject of HarnessC03Extract /
	// ExtractFull (checked against the grammar there); here: what the public
	// entry point does with the decoder's answer
	inner := trace.SpanContextFromContext(TraceContext{}.Extract(context.Background(), c))
	wellFormed = inner.IsValid()
	ctx1 := TraceContext{}.Extract(ctx0, c)
	got := trace.SpanContextFromContext(ctx1)
	vndAssert(got.IsValid(), "extract-never-leaves-an-invalid-span-context")
	if wellFormed {
		vndReach("replaced")
		vndAssert(got.IsRemote() && got.Equal(inner), "well-formed-traceparent-yields-the-remote-context")
	} else {
		vndReach("untouched")
		vndAssert(got.Equal(existing), "malformed-traceparent-leaves-the-context-untouched")
	}
}

// the decoder through the public entry point only (private signatures may change)
func c03Extract(c TextMapCarrier) trace.SpanContext {
	return trace.SpanContextFromContext(TraceContext{}.Extract(context.Background(), c))
}

// C03.roundtriplong: a tracestate of full-length members (values of 250
// characters, one arbitrary) survives Inject / Extract unchanged: the
// round trip does not depend on the header's length
func HarnessC03RoundTripLong() {
	long := make([]byte, 250)
	for i := range long {
		long[i] = 'v'
	}
	c := vndU8()
	vndAssume(vndAnd(c >= 'a', c <= 'z'))
	long[vndChoice(3)*100] = c
	ts := trace.TraceState{}
	var err error
	for _, k := range []string{"a", "b", "c"} {
		ts, err = ts.Insert(k, string(long))
		vndAssert(err == nil, "legal-member-accepted")
	}
	sc := trace.NewSpanContext(trace.SpanContextConfig{TraceID: trace.TraceID{1}, SpanID: trace.SpanID{2}, TraceFlags: trace.FlagsSampled, TraceState: ts})
	carrier := MapCarrier{}
	TraceContext{}.Inject(trace.ContextWithSpanContext(context.Background(), sc), carrier)
	got := trace.SpanContextFromContext(TraceContext{}.Extract(context.Background(), carrier))
	vndReach("roundtrip")
	vndAssert(got.IsValid() && got.TraceID() == sc.TraceID() && got.SpanID() == sc.SpanID() && got.IsSampled(), "roundtrip-same-ids-and-flag")
	vndAssert(got.TraceState().Len() == 3, "roundtrip-same-tracestate")
	for _, k := range []string{"a", "b", "c"} {
		v := got.TraceState().Get(k)
		vndAssert(len(v) == 250, "roundtrip-same-tracestate")
		if len(v) == 250 {
			vndAssert(v == string(long), "roundtrip-same-tracestate")
		}
	}
}
