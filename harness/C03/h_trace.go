package trace

// C03 harnesses for go.opentelemetry.io/otel/trace (tracestate grammar,
// parser, edits). Overlaid into the package; inputs come from vnd*.

// ---- byte-level reference grammar (W3C trace-context, section 3.3)

func c03RefLc(c byte) bool    { return vndAnd(c >= 'a', c <= 'z') }
func c03RefDigit(c byte) bool { return vndAnd(c >= '0', c <= '9') }
func c03RefKeyChar(c byte) bool {
	return vndOr(vndOr(c03RefLc(c), c03RefDigit(c)), vndOr(vndOr(c == '_', c == '-'), vndOr(c == '*', c == '/')))
}

func c03RefKeyRest(s string) bool {
	ok := true
	for i := 0; i < len(s); i++ {
		ok = vndAnd(ok, c03RefKeyChar(s[i]))
	}
	return ok
}

// simple-key / system-id: lcalpha then at most n key chars
func c03RefSimple(s string, n int) bool {
	if len(s) == 0 || len(s)-1 > n {
		return false
	}
	return vndAnd(c03RefLc(s[0]), c03RefKeyRest(s[1:]))
}

// tenant-id: (lcalpha / DIGIT) then at most n key chars
func c03RefTenant(s string, n int) bool {
	if len(s) == 0 || len(s)-1 > n {
		return false
	}
	return vndAnd(vndOr(c03RefLc(s[0]), c03RefDigit(s[0])), c03RefKeyRest(s[1:]))
}

// key = simple-key / tenant-id "@" system-id ; the split is at the first '@'.
func c03RefKeyN(k string, nSimple, nTenant, nSystem int) bool {
	noAt := true
	res := false
	for i := 0; i < len(k); i++ {
		here := vndAnd(noAt, k[i] == '@')
		res = vndOr(res, vndAnd(here, vndAnd(c03RefTenant(k[:i], nTenant), c03RefSimple(k[i+1:], nSystem))))
		noAt = vndAnd(noAt, k[i] != '@')
	}
	return vndOr(res, vndAnd(noAt, c03RefSimple(k, nSimple)))
}

func c03RefKey(k string) bool { return c03RefKeyN(k, 255, 240, 13) }

func c03RefValChar(c byte) bool {
	return vndAnd(vndAnd(c >= 0x20, c <= 0x7e), vndAnd(c != ',', c != '='))
}

// value = 0*255(chr) nblk-chr
func c03RefValue(v string) bool {
	n := len(v)
	if n == 0 || n > 256 {
		return false
	}
	ok := true
	for i := 0; i < n-1; i++ {
		ok = vndAnd(ok, c03RefValChar(v[i]))
	}
	return vndAnd(ok, vndAnd(c03RefValChar(v[n-1]), v[n-1] != ' '))
}

// ---- C03.key: checkKey against the grammar, arbitrary bytes

func HarnessC03Key() {
	k := vndString(vndParam("N", 4))
	got := c03KeyOK(k)
	want := c03RefKey(k)
	if got {
		vndReach("accept")
	} else {
		vndReach("reject")
	}
	vndAssert(got == want, "checkKey-equals-grammar")
}

func HarnessC03Value() {
	v := vndString(vndParam("N", 4))
	got := c03ValueOK(v)
	if got {
		vndReach("accept")
	} else {
		vndReach("reject")
	}
	vndAssert(got == c03RefValue(v), "checkValue-equals-grammar")
}

func HarnessC03Vacuity() {
	k := vndString(2)
	if c03KeyOK(k) {
		vndAssert(false, "vacuity")
	}
}

// ---- C03.parse: ParseTraceState on arbitrary bytes (maxListMembers scaled by a source transform)

func c03RefMemberOK(m member) bool { return vndAnd(c03RefKey(m.Key), c03RefValue(m.Value)) }

func c03CheckParsed(ts TraceState, tag string) {
	vndAssert(len(ts.list) <= maxListMembers, tag+"-at-most-max-members")
	for i := range ts.list {
		vndAssert(c03RefMemberOK(ts.list[i]), tag+"-member-conforms-to-grammar")
		for j := 0; j < i; j++ {
			vndAssert(ts.list[i].Key != ts.list[j].Key, tag+"-keys-unique")
		}
	}
}

func c03SameList(a, b []member) bool {
	if len(a) != len(b) {
		return false
	}
	ok := true
	for i := range a {
		ok = vndAnd(ok, vndAnd(a[i].Key == b[i].Key, a[i].Value == b[i].Value))
	}
	return ok
}

func HarnessC03Parse() {
	s := vndString(vndParam("N", 5))
	ts, err := ParseTraceState(s)
	if err != nil {
		vndReach("reject")
		vndAssert(len(ts.list) == 0, "parse-error-yields-empty")
		return
	}
	if len(ts.list) > 0 {
		vndReach("accept")
	}
	if len(ts.list) > 1 {
		vndReach("accept-two")
	}
	c03CheckParsed(ts, "parse")
	// re-serialise and re-parse: same members in the same order
	out := ts.String()
	ts2, err2 := ParseTraceState(out)
	vndAssert(err2 == nil, "parse-string-reparses")
	if err2 == nil {
		vndAssert(c03SameList(ts.list, ts2.list), "parse-string-roundtrip")
	}
}

// structured input: 1..K members from symbolic pieces; valid pieces must be accepted
func HarnessC03ParseStructured() {
	k := 1 + vndChoice(vndParam("K", 3)+1) // up to max+1 members
	var ms []member
	hdr := ""
	dup := false
	pre := []string{"", " ", "\t "}
	post := []string{"", "\t", " \t"}
	for i := 0; i < k; i++ {
		kl := 1
		if i == 0 {
			kl = 1 + vndChoice(2)
		}
		key := vndStringN(kl)
		val := vndStringN(1)
		vndAssume(c03RefKey(key))
		vndAssume(c03RefValue(val))
		for j := range ms {
			// a repeated key (whatever white space surrounds it) makes the header invalid
			dup = vndOr(dup, key == ms[j].Key)
		}
		ms = append(ms, member{key, val})
		if i > 0 {
			hdr += ","
		}
		o := vndChoice(3)
		hdr += pre[o] + key + "=" + val + post[o]
	}
	ts, err := ParseTraceState(hdr)
	if dup {
		vndReach("duplicate")
		vndAssert(err != nil, "duplicate-key-rejected")
		return
	}
	if k > maxListMembers {
		vndReach("too-many")
		vndAssert(err != nil, "more-than-max-members-rejected")
		return
	}
	vndReach("accepted")
	vndAssert(err == nil, "valid-header-accepted")
	if err == nil {
		vndAssert(c03SameList(ts.list, ms), "valid-header-members-in-order")
	}
}

// ---- C03.edit: one Insert / Delete from an arbitrary valid TraceState

func c03ArbitraryValidTS(n int) TraceState {
	var ms []member
	for i := 0; i < n; i++ {
		key := vndStringN(1)
		val := vndStringN(1)
		vndAssume(c03RefKey(key))
		vndAssume(c03RefValue(val))
		for j := range ms {
			vndAssume(key != ms[j].Key)
		}
		ms = append(ms, member{key, val})
	}
	return TraceState{list: ms}
}

func HarnessC03Insert() {
	n := vndChoice(maxListMembers + 1)
	ts := c03ArbitraryValidTS(n)
	before := append([]member(nil), ts.list...)
	k := vndString(vndParam("KN", 2))
	v := vndString(vndParam("VN", 1))
	got, err := ts.Insert(k, v)
	// the receiver is never modified
	vndAssert(c03SameList(ts.list, before), "insert-receiver-unchanged")
	valid := vndAnd(c03RefKey(k), c03RefValue(v))
	vndAssert((err == nil) == valid, "insert-error-iff-invalid-key-or-value")
	if err != nil {
		vndReach("rejected")
		vndAssert(c03SameList(got.list, before), "insert-error-returns-original")
		return
	}
	// model: (k,v) first, then the old members without k, cut on the right to max
	want := []member{{k, v}}
	updated := false
	for i := range before {
		if before[i].Key == k {
			updated = true
			continue
		}
		want = append(want, before[i])
	}
	if len(want) > maxListMembers {
		want = want[:maxListMembers]
		vndReach("overflow")
	}
	if updated {
		vndReach("update")
	} else {
		vndReach("insert")
	}
	vndAssert(c03SameList(got.list, want), "insert-newest-first-drop-rightmost")
	c03CheckParsed(got, "insert")
}

func HarnessC03Delete() {
	n := vndChoice(maxListMembers + 1)
	ts := c03ArbitraryValidTS(n)
	before := append([]member(nil), ts.list...)
	k := vndString(2)
	got := ts.Delete(k)
	vndAssert(c03SameList(ts.list, before), "delete-receiver-unchanged")
	var want []member
	for i := range before {
		if before[i].Key == k {
			vndReach("deleted")
			continue
		}
		want = append(want, before[i])
	}
	vndAssert(c03SameList(got.list, want), "delete-removes-exactly-key")
	c03CheckParsed(got, "delete")
	vndAssert(got.Get(k) == "", "delete-get-empty")
}

// key / value validity through the public entry point only (the private
// validators may be restructured): Insert validates both
func c03KeyOK(k string) bool {
	_, err := TraceState{}.Insert(k, "v")
	return err == nil
}

func c03ValueOK(v string) bool {
	_, err := TraceState{}.Insert("k", v)
	return err == nil
}
