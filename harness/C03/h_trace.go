package trace

// C03 harnesses for go.opentelemetry.io/otel/trace (tracestate grammar,
// parser, edits). Overlaid into the package; inputs come from vnd*.

// ---- byte-level reference grammar (W3C trace-context, section 3.3)

func refLc(c byte) bool    { return vndAnd(c >= 'a', c <= 'z') }
func refDigit(c byte) bool { return vndAnd(c >= '0', c <= '9') }
func refKeyChar(c byte) bool {
	return vndOr(vndOr(refLc(c), refDigit(c)), vndOr(vndOr(c == '_', c == '-'), vndOr(c == '*', c == '/')))
}

func refKeyRest(s string) bool {
	ok := true
	for i := 0; i < len(s); i++ {
		ok = vndAnd(ok, refKeyChar(s[i]))
	}
	return ok
}

// simple-key / system-id: lcalpha then at most n key chars
func refSimple(s string, n int) bool {
	if len(s) == 0 || len(s)-1 > n {
		return false
	}
	return vndAnd(refLc(s[0]), refKeyRest(s[1:]))
}

// tenant-id: (lcalpha / DIGIT) then at most n key chars
func refTenant(s string, n int) bool {
	if len(s) == 0 || len(s)-1 > n {
		return false
	}
	return vndAnd(vndOr(refLc(s[0]), refDigit(s[0])), refKeyRest(s[1:]))
}

// key = simple-key / tenant-id "@" system-id ; the split is at the first '@'.
func refKeyN(k string, nSimple, nTenant, nSystem int) bool {
	noAt := true
	res := false
	for i := 0; i < len(k); i++ {
		here := vndAnd(noAt, k[i] == '@')
		res = vndOr(res, vndAnd(here, vndAnd(refTenant(k[:i], nTenant), refSimple(k[i+1:], nSystem))))
		noAt = vndAnd(noAt, k[i] != '@')
	}
	return vndOr(res, vndAnd(noAt, refSimple(k, nSimple)))
}

func refKey(k string) bool { return refKeyN(k, 255, 240, 13) }

func refValChar(c byte) bool {
	return vndAnd(vndAnd(c >= 0x20, c <= 0x7e), vndAnd(c != ',', c != '='))
}

// value = 0*255(chr) nblk-chr
func refValue(v string) bool {
	n := len(v)
	if n == 0 || n > 256 {
		return false
	}
	ok := true
	for i := 0; i < n-1; i++ {
		ok = vndAnd(ok, refValChar(v[i]))
	}
	return vndAnd(ok, vndAnd(refValChar(v[n-1]), v[n-1] != ' '))
}

// ---- C03.key: checkKey against the grammar, arbitrary bytes

func HarnessC03Key() {
	k := vndString(vndParam("N", 4))
	got := checkKey(k)
	want := refKey(k)
	if got {
		vndReach("accept")
	} else {
		vndReach("reject")
	}
	vndAssert(got == want, "checkKey-equals-grammar")
}

// with symbolic length limits, to exercise the <= n boundaries that the
// literals 255 / 240 / 13 hide at tractable string lengths
func HarnessC03KeyPart() {
	k := vndString(vndParam("N", 4))
	n := vndChoice(4)
	got := checkKeyPart(k, n)
	vndAssert(got == refSimple(k, n), "checkKeyPart-equals-grammar")
	got2 := checkKeyTenant(k, n)
	vndAssert(got2 == refTenant(k, n), "checkKeyTenant-equals-grammar")
	if got {
		vndReach("accept")
	}
}

func HarnessC03Value() {
	v := vndString(vndParam("N", 4))
	got := checkValue(v)
	if got {
		vndReach("accept")
	} else {
		vndReach("reject")
	}
	vndAssert(got == refValue(v), "checkValue-equals-grammar")
}

func HarnessC03Vacuity() {
	k := vndString(2)
	if checkKey(k) {
		vndAssert(false, "vacuity")
	}
}
