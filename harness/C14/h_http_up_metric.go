package PKGNAME

import (
	"context"
	"net/http"

	"google.golang.org/protobuf/proto"

	"go.opentelemetry.io/otel/exporters/otlp/otlpmetric/otlpmetrichttp/internal/oconf"
	"go.opentelemetry.io/otel/exporters/otlp/otlpmetric/otlpmetrichttp/internal/retry"
	colmetricpb "go.opentelemetry.io/proto/otlp/collector/metrics/v1"
	metricpb "go.opentelemetry.io/proto/otlp/metrics/v1"
)

var c14Item = &metricpb.ResourceMetrics{SchemaUrl: "s"}

func c14ReqMsg() proto.Message {
	return &colmetricpb.ExportMetricsServiceRequest{ResourceMetrics: []*metricpb.ResourceMetrics{c14Item}}
}

func c14RespMsg(partial bool, n int64, msg string) proto.Message {
	m := &colmetricpb.ExportMetricsServiceResponse{}
	c14SetPartial(m, n, msg)
	if !partial {
		m.PartialSuccess = nil
	}
	return m
}

func c14SetPartial(m proto.Message, n int64, msg string) {
	m.(*colmetricpb.ExportMetricsServiceResponse).PartialSuccess = &colmetricpb.ExportMetricsPartialSuccess{RejectedDataPoints: n, ErrorMessage: msg}
}

func c14RetryConfig(enabled bool) retry.Config { return retry.Config{Enabled: enabled} }

func c14NewUploader(hc *http.Client, cfg retry.Config, gz bool) (func(context.Context) error, func(context.Context) error) {
	comp := oconf.NoCompression
	if gz {
		comp = oconf.GzipCompression
	}
	oc := oconf.NewHTTPConfig(oconf.WithInsecure(), oconf.WithEndpoint("localhost:4318"), oconf.WithCompression(comp))
	c, err := newClient(oc)
	if err != nil {
		panic(err)
	}
	c.httpClient = hc
	c.requestFunc = cfg.RequestFunc(evaluate)
	return func(ctx context.Context) error {
		return c.UploadMetrics(ctx, c14Item)
	}, nil
}
