package PKGNAME

import (
	"context"
	"errors"
	"time"

	"github.com/cenkalti/backoff/v5"
	"google.golang.org/genproto/googleapis/rpc/errdetails"
	"google.golang.org/grpc/codes"
	"google.golang.org/grpc/status"
	"google.golang.org/protobuf/types/known/durationpb"

	"go.opentelemetry.io/otel"
)

// C14.upload (gRPC): the client's Upload method through the real retry loop,
// the real wait function (virtual timer) and the real status classifier, against
// a scripted service stub (the generated service-client interface is the
// environment boundary).

type c14Resp struct {
	kind     int // 0 success, 1 success carrying a partial-success message, 2 status error
	code     codes.Code
	withInfo bool
	rejected int64
	msg      string
	cancel   bool // the caller's context is cancelled while this attempt is in flight
	err      error
}

var (
	c14Script    []c14Resp
	c14Calls     int
	c14PayloadOK bool
	c14Handled   []error
	c14CancelCtx context.CancelFunc
	c14Cancelled bool
)

// the back-off generator is replaced by an arbitrary duration in its range
func c14UpNextBackOff(b *backoff.ExponentialBackOff) time.Duration {
	d := time.Duration(vndI64())
	vndAssume(vndAnd(d >= 0, d <= 8*time.Second))
	return d
}

func c14Handle(err error) { c14Handled = append(c14Handled, err) }

func c14Retryable(r c14Resp) bool {
	if r.kind != 2 {
		return false
	}
	switch r.code {
	case codes.Canceled, codes.DeadlineExceeded, codes.Aborted, codes.OutOfRange, codes.Unavailable, codes.DataLoss:
		return true
	case codes.ResourceExhausted:
		return r.withInfo
	}
	return false
}

// c14Export is the body of the stub's Export method.
func c14Export(ctx context.Context, payloadOK bool) (partial bool, rejected int64, msg string, err error) {
	if c14Calls > 0 {
		vndAssert(c14Retryable(c14Script[c14Calls-1]), "resends-only-after-a-retryable-outcome")
	}
	if c14Calls >= len(c14Script) {
		vndAssert(false, "never-more-attempts-than-outcomes")
		return false, 0, "", nil
	}
	if !payloadOK {
		c14PayloadOK = false
	}
	r := c14Script[c14Calls]
	c14Calls++
	if c14Hang {
		<-ctx.Done()
		return false, 0, "", status.FromContextError(ctx.Err()).Err()
	}
	if r.cancel {
		c14Cancelled = true
		c14CancelCtx()
	}
	c14Details = nil
	if r.kind == 2 && r.withInfo && vndSymbolic() {
		c14Details = []any{&errdetails.RetryInfo{RetryDelay: &durationpb.Duration{}}}
	}
	return r.kind == 1, r.rejected, r.msg, r.err
}

func HarnessC14GRPCUpload() {
	n := vndParam("N", 2)
	c14Script = make([]c14Resp, n)
	c14Calls, c14PayloadOK, c14Handled, c14Cancelled = 0, true, nil, false
	for i := range c14Script {
		r := &c14Script[i]
		r.kind = vndChoice(3)
		switch r.kind {
		case 1:
			r.rejected = vndI64()
			r.msg = []string{"", "m"}[vndChoice(2)]
		case 2:
			c := vndI32()
			vndAssume(vndAnd(c >= 1, c <= 17))
			r.code = codes.Code(c)
			r.withInfo = vndChoice(2) == 1
			s := status.New(r.code, "m")
			if r.withInfo && !vndSymbolic() {
				s, _ = s.WithDetails(&errdetails.RetryInfo{RetryDelay: &durationpb.Duration{}})
			}
			r.err = s.Err()
			r.cancel = vndChoice(2) == 1
		}
	}
	last := &c14Script[n-1]
	if c14Retryable(*last) {
		// the script ends with a final outcome
		last.kind, last.err, last.cancel = 0, nil, false
	}
	cfg := c14RetryConfig(true)
	cfg.InitialInterval, cfg.MaxInterval = time.Millisecond, 2*time.Millisecond
	if vndChoice(2) == 1 {
		cfg.MaxElapsedTime = time.Nanosecond // elapses at once
	}
	if vndSymbolic() {
		cfg.InitialInterval, cfg.MaxInterval = time.Second, 5*time.Second
	} else {
		otel.SetErrorHandler(otel.ErrorHandlerFunc(c14Handle))
	}
	upload, _ := c14NewClient(cfg)
	ctx, cancel := context.WithCancel(context.Background())
	c14CancelCtx = cancel
	err := upload(ctx)
	cancel()
	vndReach("returned")
	vndAssert(c14PayloadOK, "identical-payload-on-every-attempt")
	vndAssert(c14Calls >= 1, "at-least-one-attempt")
	fin := c14Script[c14Calls-1]
	switch {
	case fin.kind == 0:
		vndReach("success")
		vndAssert(err == nil, "stops-at-first-success-and-reports-it")
		vndAssert(len(c14Handled) == 0, "error-handler-called-only-for-a-rejection")
	case fin.kind == 1:
		vndReach("partial-success")
		vndAssert(err == nil, "partial-success-is-delivered")
		if fin.rejected != 0 || fin.msg != "" {
			vndAssert(len(c14Handled) == 1 && c14Handled[0] != nil, "rejection-reported-to-the-error-handler-once")
		} else {
			vndAssert(len(c14Handled) == 0, "error-handler-called-only-for-a-rejection")
		}
	case !c14Retryable(fin):
		vndReach("non-retryable")
		vndAssert(err == fin.err, "stops-at-first-non-retryable-outcome-and-reports-exactly-it")
	default:
		// gave up after a retryable outcome: deadline or cancellation
		vndReach("gave-up")
		vndAssert(err != nil, "giving-up-reports-an-error")
		vndAssert(errors.Is(err, fin.err), "giving-up-wraps-the-last-outcome")
		vndAssert(cfg.MaxElapsedTime != 0 || c14Cancelled, "gives-up-only-on-deadline-or-cancellation")
	}
}

// retry disabled: one attempt whatever the outcome
func HarnessC14GRPCUploadDisabled() {
	c14Script = make([]c14Resp, 1)
	c14Calls, c14PayloadOK, c14Handled, c14Cancelled = 0, true, nil, false
	c := vndI32()
	vndAssume(vndAnd(c >= 1, c <= 17))
	c14Script[0] = c14Resp{kind: 2, code: codes.Code(c), err: status.New(codes.Code(c), "m").Err()}
	upload, _ := c14NewClient(c14RetryConfig(false))
	ctx, cancel := context.WithCancel(context.Background())
	c14CancelCtx = cancel
	err := upload(ctx)
	cancel()
	vndReach("disabled")
	vndAssert(c14Calls == 1, "disabled-retry-makes-exactly-one-attempt")
	vndAssert(err == c14Script[0].err, "disabled-retry-returns-the-outcome")
}

// C14.upload.stop (gRPC): a service that answers only when the call's context
// ends (as a real channel does when it is closed or the call is cancelled); the
// export ends with an error once the caller's context is cancelled or, where
// the client has a stop function that cancels in-flight exports, once the
// client is stopped with an expired context, and never blocks beyond that
var c14Hang bool

func HarnessC14GRPCHang() {
	c14Script = make([]c14Resp, 3)
	for i := range c14Script {
		c14Script[i] = c14Resp{kind: 2, code: codes.Canceled} // what a cut call reports (retryable)
	}
	c14Calls, c14PayloadOK, c14Handled, c14Cancelled = 0, true, nil, false
	c14Hang = true
	defer func() { c14Hang = false }()
	cfg := c14RetryConfig(vndChoice(2) == 1)
	cfg.InitialInterval, cfg.MaxInterval = time.Millisecond, 2*time.Millisecond
	upload, stop := c14NewClient(cfg)
	ctx, cancel := context.WithCancel(context.Background())
	c14CancelCtx = cancel
	byStop := c14HasStop && vndChoice(2) == 1
	done := make(chan struct{})
	go func() {
		if byStop {
			sctx, scancel := context.WithCancel(context.Background())
			scancel() // the shutdown has run out of time: in-flight exports are cut
			stop(sctx)
		} else {
			cancel()
		}
		close(done)
	}()
	err := upload(ctx)
	<-done
	cancel()
	vndReach("returned")
	vndAssert(err != nil, "export-cut-short-reports-an-error")
}
