package PKGNAME

import (
	"context"
	"net/http"

	"google.golang.org/protobuf/proto"

	"go.opentelemetry.io/otel/exporters/otlp/otlplog/otlploghttp/internal/retry"
	collogpb "go.opentelemetry.io/proto/otlp/collector/logs/v1"
	logpb "go.opentelemetry.io/proto/otlp/logs/v1"
)

var c14Item = &logpb.ResourceLogs{SchemaUrl: "s"}

func c14ReqMsg() proto.Message {
	return &collogpb.ExportLogsServiceRequest{ResourceLogs: []*logpb.ResourceLogs{c14Item}}
}

func c14RespMsg(partial bool, n int64, msg string) proto.Message {
	m := &collogpb.ExportLogsServiceResponse{}
	c14SetPartial(m, n, msg)
	if !partial {
		m.PartialSuccess = nil
	}
	return m
}

func c14SetPartial(m proto.Message, n int64, msg string) {
	m.(*collogpb.ExportLogsServiceResponse).PartialSuccess = &collogpb.ExportLogsPartialSuccess{RejectedLogRecords: n, ErrorMessage: msg}
}

func c14RetryConfig(enabled bool) retry.Config { return retry.Config{Enabled: enabled} }

func c14NewUploader(hc *http.Client, cfg retry.Config, gz bool) (func(context.Context) error, func(context.Context) error) {
	req, err := http.NewRequest(http.MethodPost, "http://localhost:4318/v1/logs", http.NoBody)
	if err != nil {
		panic(err)
	}
	req.Header.Set("Content-Type", "application/x-protobuf")
	comp := NoCompression
	if gz {
		comp = GzipCompression
	}
	c := &httpClient{compression: comp, req: req, requestFunc: cfg.RequestFunc(evaluate), client: hc}
	return func(ctx context.Context) error {
		return c.uploadLogs(ctx, []*logpb.ResourceLogs{c14Item})
	}, nil
}
