package PKGNAME

import (
	"time"

	"google.golang.org/genproto/googleapis/rpc/errdetails"
	"google.golang.org/grpc/codes"
	"google.golang.org/grpc/status"
	"google.golang.org/protobuf/types/known/durationpb"
)

// details carried by the status under test (the protobuf Any decoding of
// (*status.Status).Details is replaced by this model)
var c14Details []any

func c14StatusDetails(s *status.Status) []any { return c14Details }

// C14.grpc: exactly the specified codes are retryable; ResourceExhausted only
// with RetryInfo; the RetryInfo delay is passed through
func HarnessC14GRPC() {
	code := codes.Code(vndChoice(18)) // 0..16 and one out-of-range value
	withInfo := vndChoice(2) == 1
	secs := int64(vndChoice(3))
	c14Details = nil
	s := status.New(code, "m")
	if withInfo {
		info := &errdetails.RetryInfo{RetryDelay: &durationpb.Duration{Seconds: secs}}
		if vndSymbolic() {
			c14Details = []any{info} // engine: model of the decoded details
		} else if code != codes.OK {
			s, _ = s.WithDetails(info) // native replay: real protobuf details
		}
	}
	if withInfo && code == codes.OK {
		return // an OK status cannot carry details
	}
	retry, delay := retryableGRPCStatus(s)
	want := false
	switch code {
	case codes.Canceled, codes.DeadlineExceeded, codes.Aborted, codes.OutOfRange, codes.Unavailable, codes.DataLoss:
		want = true
	case codes.ResourceExhausted:
		want = withInfo
	}
	if want {
		vndReach("retryable")
	} else {
		vndReach("not-retryable")
	}
	vndAssert(retry == want, "exactly-the-specified-grpc-codes-are-retryable")
	wantDelay := time.Duration(0)
	if want && withInfo {
		wantDelay = time.Duration(secs) * time.Second
	}
	vndAssert(delay == wantDelay, "retry-info-delay-passed-through")
	r2, _ := retryable(s.Err())
	vndAssert(r2 == want, "retryable-converts-the-error-to-its-status")
}
