package retry

import (
	"context"
	"errors"
	"time"

	"github.com/cenkalti/backoff/v5"
)

// the back-off generator is replaced by an arbitrary duration in
// [0, 1.5*MaxInterval]
var c14MaxInterval time.Duration

func c14NextBackOff(b *backoff.ExponentialBackOff) time.Duration {
	d := time.Duration(vndI64())
	vndAssume(vndAnd(d >= 0, d <= c14MaxInterval+c14MaxInterval/2))
	return d
}

type c14Outcome struct {
	kind     int // 0 success, 1 non-retryable, 2 retryable
	throttle time.Duration
	err      error
}

type c14Err struct{ i int }

func (e *c14Err) Error() string { return "outcome" }

// C14.loop: RequestFunc against a symbolic sequence of collector outcomes
func HarnessC14Loop() {
	vndClockSymbolic(true)
	n := vndParam("N", 3)
	cfg := Config{Enabled: true, InitialInterval: time.Second, MaxInterval: 5 * time.Second}
	c14MaxInterval = cfg.MaxInterval
	if vndChoice(2) == 1 {
		cfg.MaxElapsedTime = time.Duration(vndI64())
		vndAssume(vndAnd(cfg.MaxElapsedTime > 0, cfg.MaxElapsedTime <= time.Hour))
	}
	seq := make([]c14Outcome, n)
	for i := range seq {
		seq[i].kind = vndChoice(3)
		if i == n-1 && seq[i].kind == 2 {
			seq[i].kind = vndChoice(2) // the script ends with a final outcome
		}
		if seq[i].kind != 0 {
			seq[i].err = &c14Err{i}
		}
		if seq[i].kind == 2 {
			seq[i].throttle = time.Duration(vndI64())
			vndAssume(vndAnd(seq[i].throttle >= 0, seq[i].throttle <= 2*time.Hour))
		}
	}
	evaluate := func(err error) (bool, time.Duration) {
		var e *c14Err
		if errors.As(err, &e) && seq[e.i].kind == 2 {
			return true, seq[e.i].throttle
		}
		return false, 0
	}
	payload := new(int)
	var started int64
	calls := 0
	samePayload := true
	fn := func(ctx context.Context) error {
		if calls > 0 {
			vndAssert(seq[calls-1].kind == 2, "resends-only-after-a-retryable-outcome")
		}
		if calls >= n {
			vndAssert(false, "never-more-calls-than-outcomes")
			return nil
		}
		if payload == nil {
			samePayload = false
		}
		if calls == 0 {
			// the loop's own start reading (nothing reads the clock in between)
			started = vndClockPeek()
		}
		o := seq[calls]
		calls++
		return o.err
	}
	// waitFunc model: records the delay; may report a cancelled context
	var waits, elapsedAtWait []time.Duration
	ctxErrAt := -1
	if vndChoice(2) == 1 {
		ctxErrAt = vndChoice(n)
	}
	orig := waitFunc
	waitFunc = func(ctx context.Context, d time.Duration) error {
		waits = append(waits, d)
		// the loop's last reading of the elapsed time
		elapsedAtWait = append(elapsedAtWait, time.Duration(vndClockPeek()-started))
		if len(waits)-1 == ctxErrAt {
			return context.Canceled
		}
		return nil
	}
	err := cfg.RequestFunc(evaluate)(context.Background(), fn)
	waitFunc = orig
	vndReach("returned")
	vndAssert(samePayload, "identical-payload-on-every-attempt")
	vndAssert(calls >= 1, "at-least-one-attempt")
	last := seq[calls-1]
	for i, w := range waits {
		vndAssert(w >= seq[i].throttle, "never-waits-less-than-the-server-supplied-delay")
		if cfg.MaxElapsedTime != 0 {
			vndAssert(seq[i].throttle <= cfg.MaxElapsedTime, "never-waits-for-a-delay-beyond-the-maximum-elapsed-time")
			// the wait itself ends within the maximum elapsed time (as far as the
			// loop's last clock reading can tell)
			vndAssert(elapsedAtWait[i]+w <= cfg.MaxElapsedTime, "never-blocks-beyond-the-maximum-elapsed-time")
		}
	}
	vndAssert(len(waits) == calls-1 || len(waits) == calls, "one-wait-between-consecutive-attempts")
	switch {
	case last.kind == 0:
		vndReach("success")
		vndAssert(err == nil, "stops-at-first-success-and-reports-it")
	case last.kind == 1:
		vndReach("non-retryable")
		vndAssert(err == last.err, "stops-at-first-non-retryable-outcome-and-reports-exactly-it")
	default:
		// gave up after a retryable outcome: deadline or cancellation
		vndReach("gave-up")
		vndAssert(err != nil, "giving-up-reports-an-error")
		vndAssert(errors.Is(err, last.err), "giving-up-wraps-the-last-outcome")
		if len(waits) == calls && ctxErrAt == calls-1 {
			vndAssert(errors.Is(err, context.Canceled), "cancellation-reported")
		} else {
			vndAssert(cfg.MaxElapsedTime != 0, "gives-up-only-on-deadline-or-cancellation")
		}
	}
	if ctxErrAt >= 0 && len(waits) > ctxErrAt {
		vndAssert(calls == ctxErrAt+1, "no-further-attempt-after-cancellation")
	}
}

// disabled retry: exactly one attempt, its outcome returned as is
func HarnessC14Disabled() {
	calls := 0
	e := &c14Err{0}
	var ret error
	if vndChoice(2) == 1 {
		ret = e
	}
	err := Config{Enabled: false}.RequestFunc(func(error) (bool, time.Duration) { return true, 0 })(context.Background(), func(context.Context) error {
		calls++
		return ret
	})
	vndReach("disabled")
	vndAssert(calls == 1, "disabled-retry-makes-exactly-one-attempt")
	vndAssert(err == ret, "disabled-retry-returns-the-outcome")
}

// C14.wait: the real wait function under the virtual clock: it reports "go on"
// (nil) only when the delay has fully elapsed; a context that ends first is
// reported; it never returns early with nil (a too-early nil makes the loop
// re-send before a server-supplied delay is over)
func HarnessC14Wait() {
	unit := time.Second
	if !vndSymbolic() {
		unit = time.Millisecond // the native run really sleeps
	}
	now := func() int64 {
		if vndSymbolic() {
			return vndClockPeek()
		}
		return time.Now().UnixNano()
	}
	d := time.Duration(1+vndChoice(3)) * unit
	ctx := context.Background()
	var cancel context.CancelFunc = func() {}
	switch vndChoice(4) {
	case 1: // a deadline before the end of the delay
		ctx, cancel = context.WithTimeout(ctx, d/2)
	case 2: // a deadline after it
		ctx, cancel = context.WithTimeout(ctx, 4*d)
	case 3: // already cancelled
		ctx, cancel = context.WithCancel(ctx)
		cancel()
	}
	defer cancel()
	t0 := now()
	err := wait(ctx, d)
	el := now() - t0
	vndReach("waited")
	if err == nil {
		vndReach("go-on")
		vndAssert(el >= int64(d), "never-waits-less-than-the-requested-delay")
	} else {
		vndReach("context-ended")
		vndAssert(ctx.Err() != nil && errors.Is(err, ctx.Err()), "wait-error-is-the-context-error")
	}
}
