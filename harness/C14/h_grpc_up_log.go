package PKGNAME

import (
	"context"

	"google.golang.org/grpc"

	"go.opentelemetry.io/otel/exporters/otlp/otlplog/otlploggrpc/internal/retry"
	collogpb "go.opentelemetry.io/proto/otlp/collector/logs/v1"
	logpb "go.opentelemetry.io/proto/otlp/logs/v1"
)

var c14Item = &logpb.ResourceLogs{}

type c14Stub struct{}

func (c14Stub) Export(ctx context.Context, in *collogpb.ExportLogsServiceRequest, opts ...grpc.CallOption) (*collogpb.ExportLogsServiceResponse, error) {
	partial, n, msg, err := c14Export(ctx, len(in.ResourceLogs) == 1 && in.ResourceLogs[0] == c14Item)
	if err != nil {
		return nil, err
	}
	resp := &collogpb.ExportLogsServiceResponse{}
	if partial {
		resp.PartialSuccess = &collogpb.ExportLogsPartialSuccess{RejectedLogRecords: n, ErrorMessage: msg}
	}
	return resp, nil
}

func c14RetryConfig(enabled bool) retry.Config { return retry.Config{Enabled: enabled} }

func c14NewClient(cfg retry.Config) (func(context.Context) error, func(context.Context) error) {
	c := &client{requestFunc: cfg.RequestFunc(retryable), lsc: c14Stub{}}
	return func(ctx context.Context) error {
		return c.UploadLogs(ctx, []*logpb.ResourceLogs{c14Item})
	}, c.Shutdown
}

// whether the client has a stop function that cancels in-flight exports
const c14HasStop = false
