package PKGNAME

import (
	"errors"
	"net/http"
	"time"
)

var errC14 = errors.New("status")

// C14.http: a Retry-After of N seconds is a throttle of N seconds; anything
// that is not a retryableError is not retried
func HarnessC14HTTPThrottle() {
	c14HTTPThrottle(0)
}

// Demonstrator of a recorded finding: Retry-After: N (seconds) is honoured as
// N nanoseconds.
func HarnessC14HTTPThrottleSeconds() {
	c14HTTPThrottle(1 + vndChoice(3))
}

func c14HTTPThrottle(secs int) {
	digits := []string{"0", "1", "2", "3"}[secs]
	pad := []string{"", "0", "00"}[vndChoice(3)]
	h := http.Header{}
	hasHeader := vndChoice(2) == 1
	if hasHeader {
		h["Retry-After"] = []string{pad + digits}
	}
	err := newResponseError(h, errC14)
	retry, throttle := evaluate(err)
	vndReach("response-error")
	vndAssert(retry, "response-error-is-retryable")
	want := time.Duration(0)
	if hasHeader {
		want = time.Duration(secs) * time.Second
	}
	if secs == 0 {
		vndAssert(throttle == want, "no-throttle-without-a-positive-retry-after")
	} else {
		vndAssert(throttle == want, "retry-after-seconds-become-a-throttle-of-that-many-seconds")
	}
	vndAssert(errors.Is(err, errC14), "response-error-wraps-the-cause")
	// an HTTP-date or garbage value is ignored (no throttle), never a failure
	h2 := http.Header{"Retry-After": []string{vndString(2)}}
	r2, _ := evaluate(newResponseError(h2, nil))
	vndAssert(r2, "response-error-is-retryable")
}

func HarnessC14HTTPNotRetryable() {
	r, d := evaluate(errC14)
	vndReach("plain")
	vndAssert(!r && d == 0, "plain-error-is-not-retried")
	r, d = evaluate(nil)
	vndAssert(!r && d == 0, "success-is-not-retried")
	// only the outermost error counts: a wrapped retryableError is not retried
	wrapped := errors.Join(errC14, newResponseError(http.Header{}, nil))
	r, _ = evaluate(wrapped)
	vndAssert(!r, "only-the-outermost-error-is-evaluated")
}
