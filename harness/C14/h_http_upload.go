package PKGNAME

import (
	"bytes"
	"compress/gzip"
	"context"
	"errors"
	"io"
	"net/http"
	"net/url"
	"time"

	"github.com/cenkalti/backoff/v5"
	"google.golang.org/protobuf/proto"

	"go.opentelemetry.io/otel"
)

// C14.upload (HTTP): the client's upload method with its response
// classification, partial-success handling and request re-use, through the real
// retry loop and wait function (virtual timer), against a scripted
// http.RoundTripper. Inside the engine http.Client.Do is replaced by a model
// that calls the round tripper and wraps its error in *url.Error as the
// library does, and protobuf wire encoding / decoding by models (the payload is
// an arbitrary byte string, the decoded response is the scripted message);
// natively the real http.Client and the real protobuf library run.

type c14HResp struct {
	kind       int  // 0: 2xx empty body, 1: 2xx protobuf body, 2: 2xx other body, 3: non-2xx status, 4: temporary transport error, 5: permanent transport error
	sc         int  // status code
	retryAfter bool // Retry-After: 0
	body       bool // non-2xx: non-empty body
	rejected   int64
	msg        string
	partial    bool // kind 1: the response carries a partial-success message
	cancel     bool
	chunked    bool // the response does not announce its length
}

var errC14Decode = errors.New("proto: cannot parse")

type c14NetErr struct{ temporary bool }

func (e *c14NetErr) Error() string   { return "net" }
func (e *c14NetErr) Temporary() bool { return e.temporary }
func (e *c14NetErr) Timeout() bool   { return false }

var (
	c14HScript    []c14HResp
	c14HCalls     int
	c14HBodyOK    bool
	c14HHandled   []error
	c14HCancelCtx context.CancelFunc
	c14HCancelled bool
	c14HPayload   []byte
	c14HErrs      []error
	c14HWant      []byte
	c14HGzip      bool
	c14HHang      bool
)

func c14UpNextBackOff(b *backoff.ExponentialBackOff) time.Duration {
	d := time.Duration(vndI64())
	vndAssume(vndAnd(d >= 0, d <= 8*time.Second))
	return d
}

func c14Handle(err error) { c14HHandled = append(c14HHandled, err) }

// models used inside the engine only
func c14ClientDo(c *http.Client, req *http.Request) (*http.Response, error) {
	resp, err := c.Transport.RoundTrip(req)
	if err != nil {
		return nil, &url.Error{Op: "Post", URL: "u", Err: err}
	}
	return resp, nil
}

func c14Marshal(m proto.Message) ([]byte, error) { return c14HPayload, nil }

func c14Unmarshal(b []byte, m proto.Message) error {
	// only the body of the response being handled decodes (the model's
	// protobuf responses have the one-byte body {1})
	if len(b) != 1 || b[0] != 1 {
		return errC14Decode
	}
	r := c14HScript[c14HCalls-1]
	if r.partial {
		c14SetPartial(m, r.rejected, r.msg)
	}
	return nil
}

func c14HRetryable(r c14HResp) bool {
	switch r.kind {
	case 3:
		return r.sc == 429 || r.sc == 502 || r.sc == 503 || r.sc == 504
	case 4:
		return true
	}
	return false
}

type c14RT struct{}

func (c14RT) RoundTrip(req *http.Request) (*http.Response, error) {
	if c14HCalls > 0 {
		vndAssert(c14HRetryable(c14HScript[c14HCalls-1]), "resends-only-after-a-retryable-outcome")
	}
	if c14HCalls >= len(c14HScript) {
		vndAssert(false, "never-more-attempts-than-outcomes")
		return nil, &c14NetErr{}
	}
	body, _ := io.ReadAll(req.Body)
	if c14HGzip {
		if req.Header.Get("Content-Encoding") != "gzip" {
			c14HBodyOK = false
		}
		zr, err := gzip.NewReader(bytes.NewReader(body))
		if err != nil {
			c14HBodyOK = false
		} else if body, err = io.ReadAll(zr); err != nil {
			c14HBodyOK = false
		}
	}
	if req.Method != http.MethodPost || !bytes.Equal(body, c14HWant) || req.Header.Get("Content-Type") != "application/x-protobuf" {
		c14HBodyOK = false
	}
	r := c14HScript[c14HCalls]
	c14HCalls++
	if c14HHang {
		// a collector that never answers: the attempt ends when its context does
		<-req.Context().Done()
		e := &c14NetErr{}
		c14HErrs = append(c14HErrs, e)
		return nil, errors.Join(e, req.Context().Err())
	}
	if r.cancel {
		c14HCancelled = true
		c14HCancelCtx()
	}
	if r.kind >= 4 {
		e := &c14NetErr{temporary: r.kind == 4}
		c14HErrs = append(c14HErrs, e)
		return nil, e
	}
	c14HErrs = append(c14HErrs, nil)
	h := http.Header{}
	var rb []byte
	switch r.kind {
	case 1:
		h.Set("Content-Type", "application/x-protobuf")
		rb = []byte{1}
		if !vndSymbolic() {
			rb, _ = proto.Marshal(c14RespMsg(r.partial, r.rejected, r.msg))
			if len(rb) == 0 {
				r.kind = 0
			}
		}
	case 2:
		h.Set("Content-Type", "text/plain")
		rb = []byte("x")
	case 3:
		if r.retryAfter {
			h.Set("Retry-After", "0")
		}
		if r.body {
			rb = []byte(" x ")
		}
	}
	// the length is announced, or unknown (a chunked / streamed response)
	cl := int64(len(rb))
	if r.chunked {
		cl = -1
	}
	return &http.Response{StatusCode: r.sc, Status: "s", Header: h, Body: io.NopCloser(bytes.NewReader(rb)), ContentLength: cl, Request: req}, nil
}

func HarnessC14HTTPUpload() { c14HTTPUpload(false) }

// the same with gzip compression (the compressor runs on a concrete payload)
func HarnessC14HTTPUploadGzip() { c14HTTPUpload(true) }

func c14HTTPUpload(gz bool) {
	n := vndParam("N", 2)
	c14HScript = make([]c14HResp, n)
	c14HCalls, c14HBodyOK, c14HHandled, c14HCancelled, c14HErrs = 0, true, nil, false, nil
	c14HGzip, c14HHang = gz, false
	if c14HGzip {
		c14HPayload = []byte{1, 2, 3} // the compressor runs on concrete bytes
	} else {
		c14HPayload = []byte{vndU8(), vndU8(), vndU8()}
	}
	for i := range c14HScript {
		r := &c14HScript[i]
		if gz {
			r.kind = []int{0, 3, 4}[vndChoice(3)] // compression matters only for what is sent
		} else {
			r.kind = vndChoice(6)
		}
		switch r.kind {
		case 0, 2:
			sc := vndI32()
			vndAssume(vndAnd(sc >= 200, sc <= 299))
			r.sc = int(sc)
		case 1:
			sc := vndI32()
			vndAssume(vndAnd(sc >= 200, sc <= 299))
			r.sc = int(sc)
			r.partial = vndChoice(2) == 1
			r.chunked = vndChoice(2) == 1
			if r.partial {
				r.rejected = vndI64()
				r.msg = []string{"", "m"}[vndChoice(2)]
			}
		case 3:
			sc := vndI32()
			vndAssume(vndAnd(sc >= 300, sc <= 599))
			r.sc = int(sc)
			r.retryAfter = vndChoice(2) == 1
			r.body = vndChoice(2) == 1
			r.cancel = vndChoice(2) == 1
		case 4:
			r.cancel = vndChoice(2) == 1
		}
	}
	last := &c14HScript[n-1]
	if c14HRetryable(*last) {
		*last = c14HResp{kind: 0, sc: 200} // the script ends with a final outcome
	}
	cfg := c14RetryConfig(true)
	cfg.InitialInterval, cfg.MaxInterval = time.Millisecond, 2*time.Millisecond
	if vndChoice(2) == 1 {
		cfg.MaxElapsedTime = time.Nanosecond // elapses at once
	}
	if vndSymbolic() {
		cfg.InitialInterval, cfg.MaxInterval = time.Second, 5*time.Second
	} else {
		otel.SetErrorHandler(otel.ErrorHandlerFunc(c14Handle))
	}
	upload, _ := c14NewUploader(&http.Client{Transport: c14RT{}}, cfg, c14HGzip)
	c14HWant, _ = proto.Marshal(c14ReqMsg())
	ctx, cancel := context.WithCancel(context.Background())
	c14HCancelCtx = cancel
	err := upload(ctx)
	cancel()
	vndReach("returned")
	vndAssert(c14HBodyOK, "identical-payload-on-every-attempt")
	vndAssert(c14HCalls >= 1, "at-least-one-attempt")
	fin := c14HScript[c14HCalls-1]
	switch {
	case fin.kind == 0 || fin.kind == 2:
		vndReach("success")
		vndAssert(err == nil, "stops-at-first-success-and-reports-it")
		vndAssert(len(c14HHandled) == 0, "error-handler-called-only-for-a-rejection")
	case fin.kind == 1:
		vndReach("partial-success")
		vndAssert(err == nil, "partial-success-is-delivered")
		if fin.partial && (fin.rejected != 0 || fin.msg != "") {
			vndAssert(len(c14HHandled) == 1 && c14HHandled[0] != nil, "rejection-reported-to-the-error-handler-once")
		} else {
			vndAssert(len(c14HHandled) == 0, "error-handler-called-only-for-a-rejection")
		}
	case !c14HRetryable(fin):
		vndReach("non-retryable")
		vndAssert(err != nil, "stops-at-first-non-retryable-outcome-and-reports-it")
		if fin.kind == 5 {
			vndAssert(errors.Is(err, c14HErrs[c14HCalls-1]), "transport-error-reported-as-the-cause")
		}
		vndAssert(len(c14HHandled) == 0, "error-handler-called-only-for-a-rejection")
	default:
		vndReach("gave-up")
		vndAssert(err != nil, "giving-up-reports-an-error")
		if fin.kind == 4 {
			// (a cancelled context may be reported instead: the closure checks it before re-sending)
			vndAssert(errors.Is(err, c14HErrs[c14HCalls-1]) || c14HCancelled && errors.Is(err, context.Canceled), "giving-up-reports-the-last-outcome-or-the-cancellation")
		}
		vndAssert(cfg.MaxElapsedTime != 0 || c14HCancelled, "gives-up-only-on-deadline-or-cancellation")
	}
}

// C14.upload.stop (HTTP): a collector that never answers; the export ends (with
// an error) once the caller's context is cancelled or, where the client has a
// Stop method, once the client is stopped, and never blocks beyond that
func HarnessC14HTTPHang() {
	c14HScript = make([]c14HResp, 2)
	c14HCalls, c14HBodyOK, c14HHandled, c14HCancelled, c14HErrs = 0, true, nil, false, nil
	c14HGzip, c14HHang = false, true
	c14HPayload = []byte{1, 2, 3}
	cfg := c14RetryConfig(vndChoice(2) == 1)
	cfg.InitialInterval, cfg.MaxInterval = time.Millisecond, 2*time.Millisecond
	upload, stop := c14NewUploader(&http.Client{Transport: c14RT{}}, cfg, false)
	c14HWant, _ = proto.Marshal(c14ReqMsg())
	ctx, cancel := context.WithCancel(context.Background())
	byStop := stop != nil && vndChoice(2) == 1
	done := make(chan struct{})
	go func() {
		if byStop {
			stop(context.Background())
		} else {
			cancel()
		}
		close(done)
	}()
	err := upload(ctx)
	<-done
	cancel()
	vndReach("returned")
	vndAssert(err != nil, "export-cut-short-reports-an-error")
	vndAssert(c14HCalls <= 2, "no-attempts-after-cancellation-or-stop")
}
