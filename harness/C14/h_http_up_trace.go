package PKGNAME

import (
	"context"
	"net/http"

	"google.golang.org/protobuf/proto"

	"go.opentelemetry.io/otel/exporters/otlp/otlptrace/otlptracehttp/internal/retry"
	coltracepb "go.opentelemetry.io/proto/otlp/collector/trace/v1"
	tracepb "go.opentelemetry.io/proto/otlp/trace/v1"
)

var c14Item = &tracepb.ResourceSpans{SchemaUrl: "s"}

func c14ReqMsg() proto.Message {
	return &coltracepb.ExportTraceServiceRequest{ResourceSpans: []*tracepb.ResourceSpans{c14Item}}
}

func c14RespMsg(partial bool, n int64, msg string) proto.Message {
	m := &coltracepb.ExportTraceServiceResponse{}
	c14SetPartial(m, n, msg)
	if !partial {
		m.PartialSuccess = nil
	}
	return m
}

func c14SetPartial(m proto.Message, n int64, msg string) {
	m.(*coltracepb.ExportTraceServiceResponse).PartialSuccess = &coltracepb.ExportTracePartialSuccess{RejectedSpans: n, ErrorMessage: msg}
}

func c14RetryConfig(enabled bool) retry.Config { return retry.Config{Enabled: enabled} }

func c14NewUploader(hc *http.Client, cfg retry.Config, gz bool) (func(context.Context) error, func(context.Context) error) {
	comp := NoCompression
	if gz {
		comp = GzipCompression
	}
	c := NewClient(WithInsecure(), WithEndpoint("localhost:4318"), WithCompression(comp)).(*client)
	c.client = hc
	c.requestFunc = cfg.RequestFunc(evaluate)
	return func(ctx context.Context) error {
		return c.UploadTraces(ctx, []*tracepb.ResourceSpans{c14Item})
	}, c.Stop
}
