package PKGNAME

import (
	"context"

	"google.golang.org/grpc"

	"go.opentelemetry.io/otel/exporters/otlp/otlpmetric/otlpmetricgrpc/internal/retry"
	colmetricpb "go.opentelemetry.io/proto/otlp/collector/metrics/v1"
	metricpb "go.opentelemetry.io/proto/otlp/metrics/v1"
)

var c14Item = &metricpb.ResourceMetrics{}

type c14Stub struct{}

func (c14Stub) Export(ctx context.Context, in *colmetricpb.ExportMetricsServiceRequest, opts ...grpc.CallOption) (*colmetricpb.ExportMetricsServiceResponse, error) {
	partial, n, msg, err := c14Export(ctx, len(in.ResourceMetrics) == 1 && in.ResourceMetrics[0] == c14Item)
	if err != nil {
		return nil, err
	}
	resp := &colmetricpb.ExportMetricsServiceResponse{}
	if partial {
		resp.PartialSuccess = &colmetricpb.ExportMetricsPartialSuccess{RejectedDataPoints: n, ErrorMessage: msg}
	}
	return resp, nil
}

func c14RetryConfig(enabled bool) retry.Config { return retry.Config{Enabled: enabled} }

func c14NewClient(cfg retry.Config) (func(context.Context) error, func(context.Context) error) {
	c := &client{requestFunc: cfg.RequestFunc(retryable), msc: c14Stub{}}
	return func(ctx context.Context) error {
		return c.UploadMetrics(ctx, c14Item)
	}, c.Shutdown
}

// whether the client has a stop function that cancels in-flight exports
const c14HasStop = false
