package PKGNAME

import (
	"context"

	"google.golang.org/grpc"

	"go.opentelemetry.io/otel/exporters/otlp/otlptrace/otlptracegrpc/internal/retry"
	coltracepb "go.opentelemetry.io/proto/otlp/collector/trace/v1"
	tracepb "go.opentelemetry.io/proto/otlp/trace/v1"
)

var c14Item = &tracepb.ResourceSpans{}

type c14Stub struct{}

func (c14Stub) Export(ctx context.Context, in *coltracepb.ExportTraceServiceRequest, opts ...grpc.CallOption) (*coltracepb.ExportTraceServiceResponse, error) {
	partial, n, msg, err := c14Export(ctx, len(in.ResourceSpans) == 1 && in.ResourceSpans[0] == c14Item)
	if err != nil {
		return nil, err
	}
	resp := &coltracepb.ExportTraceServiceResponse{}
	if partial {
		resp.PartialSuccess = &coltracepb.ExportTracePartialSuccess{RejectedSpans: n, ErrorMessage: msg}
	}
	return resp, nil
}

func c14RetryConfig(enabled bool) retry.Config { return retry.Config{Enabled: enabled} }

func c14NewClient(cfg retry.Config) (func(context.Context) error, func(context.Context) error) {
	ctx, cancel := context.WithCancel(context.Background())
	c := &client{requestFunc: cfg.RequestFunc(retryable), stopCtx: ctx, stopFunc: cancel, tsc: c14Stub{}}
	return func(ctx context.Context) error {
		return c.UploadTraces(ctx, []*tracepb.ResourceSpans{c14Item})
	}, c.Stop
}

// whether the client has a stop function that cancels in-flight exports
const c14HasStop = true
