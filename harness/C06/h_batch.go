package log

import (
	"context"
	"errors"
	"sync"
	"sync/atomic"
	"time"

	"go.opentelemetry.io/otel/log"
)

func c06Rec(id int) Record {
	var r Record
	r.SetBody(log.IntValue(id))
	return r
}

func c06ID(r Record) int { return int(r.Body().AsInt64()) }

var c06Keys = []string{"k0", "k1", "k2", "k3", "k4", "k5", "k6"}

// ---- C06.queue: the ring queue against a bounded FIFO that overwrites the oldest
func HarnessC06Queue() {
	c := 1 + vndChoice(3)
	q := newQueue(c)
	var model []int
	dropped := 0
	next := 0
	k := vndParam("K", 5)
	for step := 0; step < k; step++ {
		switch vndChoice(3) {
		case 0:
			n := q.Enqueue(c06Rec(next))
			model = append(model, next)
			next++
			if len(model) > c {
				model = model[1:]
				dropped++
				vndReach("overwrite")
			}
			vndAssert(n == len(model), "enqueue-returns-length")
		case 1:
			bl := 1 + vndChoice(3)
			ok := vndChoice(2) == 1
			buf := make([]Record, bl)
			var got []int
			rem := q.TryDequeue(buf, func(r []Record) bool {
				for _, x := range r {
					got = append(got, c06ID(x))
				}
				return ok
			})
			n := bl
			if len(model) < n {
				n = len(model)
			}
			vndAssert(len(got) == n, "dequeue-offers-oldest-records-up-to-buffer")
			for i := 0; i < n && i < len(got); i++ {
				vndAssert(got[i] == model[i], "dequeue-order-is-fifo")
			}
			if ok {
				model = model[n:]
			} else {
				vndReach("failed-write")
			}
			vndAssert(rem == len(model), "failed-write-removes-nothing")
		case 2:
			out := q.Flush()
			vndAssert(len(out) == len(model), "flush-returns-everything")
			for i := range out {
				if i < len(model) {
					vndAssert(c06ID(out[i]) == model[i], "flush-order-is-fifo")
				}
			}
			model = nil
		}
		vndAssert(q.Len() == len(model), "queue-length-equals-model")
	}
	vndAssert(int(q.Dropped()) == dropped, "dropped-counts-overwritten-records")
}

// ---- C06.chunk
type c06Inner struct {
	calls  [][]int
	failAt int
}

func (e *c06Inner) Export(_ context.Context, rs []Record) error {
	var ids []int
	for _, r := range rs {
		ids = append(ids, c06ID(r))
	}
	e.calls = append(e.calls, ids)
	if len(e.calls)-1 == e.failAt {
		return errors.New("fail")
	}
	return nil
}
func (e *c06Inner) Shutdown(context.Context) error   { return nil }
func (e *c06Inner) ForceFlush(context.Context) error { return nil }

func HarnessC06Chunk() {
	n := vndChoice(vndParam("N", 6))
	size := 1 + vndChoice(3)
	inner := &c06Inner{failAt: vndChoice(4)}
	var rs []Record
	for i := 0; i < n; i++ {
		rs = append(rs, c06Rec(i))
	}
	err := newChunkExporter(inner, size).Export(context.Background(), rs)
	vndReach("chunked")
	next := 0
	for ci, call := range inner.calls {
		vndAssert(len(call) <= size && len(call) > 0, "every-inner-export-at-most-size")
		for _, id := range call {
			vndAssert(id == next, "chunks-concatenate-to-the-input-in-order")
			next++
		}
		if ci < len(inner.calls)-1 {
			vndAssert(ci != inner.failAt, "stops-at-the-first-error")
		}
	}
	if err == nil {
		vndAssert(next == n, "all-records-exported-when-no-error")
	} else {
		vndAssert(len(inner.calls)-1 == inner.failAt, "error-is-the-first-failing-chunk")
	}
}

// ---- exporter model for the processor
type c06Exporter struct {
	mu        sync.Mutex
	in        int32
	overlap   bool
	batches   [][]int
	maxBatch  int
	afterStop bool
	stopped   *bool
	shutdowns int
	tampered  bool // an exported record shows a change made to the caller's record after emission
}

func (e *c06Exporter) Export(_ context.Context, rs []Record) error {
	if atomic.AddInt32(&e.in, 1) != 1 {
		e.overlap = true
	}
	if vndGhostLoad(e.stopped) {
		e.afterStop = true
	}
	ids := make([]int, len(rs))
	for i, r := range rs {
		ids[i] = c06ID(r)
		r.WalkAttributes(func(kv log.KeyValue) bool {
			for a, k := range c06Keys {
				if kv.Key == k && kv.Value.AsInt64() != int64(a) {
					e.tampered = true
				}
			}
			return true
		})
	}
	vndYield()
	e.mu.Lock()
	e.batches = append(e.batches, ids)
	if len(rs) > e.maxBatch {
		e.maxBatch = len(rs)
	}
	e.mu.Unlock()
	atomic.AddInt32(&e.in, -1)
	return nil
}
func (e *c06Exporter) Shutdown(context.Context) error {
	e.mu.Lock()
	e.shutdowns++
	e.mu.Unlock()
	return nil
}
func (e *c06Exporter) ForceFlush(context.Context) error { return nil }

func (e *c06Exporter) flat() []int {
	e.mu.Lock()
	defer e.mu.Unlock()
	var out []int
	for _, b := range e.batches {
		out = append(out, b...)
	}
	return out
}

func c06Count(xs []int, id int) int {
	n := 0
	for _, x := range xs {
		if x == id {
			n++
		}
	}
	return n
}

type c06Cfg struct{ queue, batch, buffer int }

func c06New(e *c06Exporter, minQueue int) (*BatchProcessor, c06Cfg) {
	cfg := c06Cfg{queue: minQueue, batch: 1 + vndChoice(2), buffer: 1}
	if vndParam("CFG", 8) == 8 {
		cfg.queue, cfg.buffer = minQueue+vndChoice(2), 1+vndChoice(2)
	}
	return NewBatchProcessor(e, WithMaxQueueSize(cfg.queue), WithExportMaxBatchSize(cfg.batch), WithExportBufferSize(cfg.buffer),
		WithExportInterval(time.Second), WithExportTimeout(time.Hour)), cfg
}

func c06Common(e *c06Exporter, cfg c06Cfg, nrec int) {
	vndAssert(!e.overlap, "export-never-running-twice-at-the-same-time")
	vndAssert(e.maxBatch <= cfg.batch, "no-export-larger-than-maximum-batch-size")
	vndAssert(!e.afterStop, "nothing-exported-after-shutdown-returned")
	vndAssert(!e.tampered, "exported-records-unaffected-by-later-changes-to-the-callers-record")
	all := e.flat()
	for id := 0; id < nrec; id++ {
		vndAssert(c06Count(all, id) <= 1, "no-record-exported-twice")
	}
}

// ---- C06.seq
func HarnessC06Seq() {
	stopped := false
	e := &c06Exporter{stopped: &stopped}
	b, cfg := c06New(e, 3)
	ctx := context.Background()
	for i := 0; i < 3; i++ {
		r := c06Rec(i)
		if i == 0 {
			// seven attributes: the last two live in the record's overflow slice
			for a := 0; a < 7; a++ {
				r.AddAttributes(log.Int(c06Keys[a], a))
			}
		}
		b.OnEmit(ctx, &r)
		r.SetBody(log.IntValue(100 + i)) // later changes to the caller's record
		if i == 0 {
			r.AddAttributes(log.Int(c06Keys[6], 99), log.Int(c06Keys[0], 98))
		}
	}
	ferr := b.ForceFlush(ctx)
	vndAssert(ferr == nil, "flush-returns-nil")
	all := e.flat()
	vndReach("flushed")
	for i := 0; i < 3; i++ {
		vndAssert(c06Count(all, i) == 1, "after-flush-every-emitted-record-exported-exactly-once")
		vndAssert(c06Count(all, 100+i) == 0, "exported-records-unaffected-by-later-changes-to-the-callers-record")
	}
	for i := 0; i+1 < len(all); i++ {
		vndAssert(all[i] < all[i+1], "records-exported-in-emission-order")
	}
	r := c06Rec(3)
	b.OnEmit(ctx, &r)
	serr := b.Shutdown(ctx)
	vndGhostStore(&stopped, true)
	vndAssert(serr == nil, "shutdown-returns-nil")
	vndReach("shutdown")
	vndAssert(c06Count(e.flat(), 3) == 1, "record-emitted-before-shutdown-exported-exactly-once")
	vndAssert(e.shutdowns == 1, "exporter-shut-down-once")
	r2 := c06Rec(4)
	b.OnEmit(ctx, &r2)
	vndAssert(b.ForceFlush(ctx) == nil, "flush-after-shutdown-nil")
	vndAssert(b.Shutdown(ctx) == nil, "second-shutdown-nil")
	vndAssert(c06Count(e.flat(), 4) == 0, "record-emitted-after-shutdown-not-exported")
	c06Common(e, cfg, 5)
}

// overflow: more records than the queue holds; the survivors are a suffix-ordered subset
func HarnessC06Overflow() {
	stopped := false
	e := &c06Exporter{stopped: &stopped}
	b := NewBatchProcessor(e, WithMaxQueueSize(2), WithExportMaxBatchSize(2), WithExportBufferSize(1), WithExportInterval(time.Second), WithExportTimeout(time.Hour))
	ctx := context.Background()
	for i := 0; i < 4; i++ {
		r := c06Rec(i)
		b.OnEmit(ctx, &r)
	}
	vndAssert(b.Shutdown(ctx) == nil, "shutdown-returns-nil")
	vndGhostStore(&stopped, true)
	all := e.flat()
	vndReach("overflow")
	vndAssert(c06Count(all, 3) == 1, "newest-record-survives-overflow")
	vndAssert(len(all) >= 2, "at-least-a-queue-full-of-records-exported")
	for i := 0; i+1 < len(all); i++ {
		vndAssert(all[i] < all[i+1], "records-exported-in-emission-order")
	}
	c06Common(e, c06Cfg{2, 2, 1}, 4)
}

// ---- C06.conc
func HarnessC06Conc() {
	vndRaceOn(true)
	stopped := false
	e := &c06Exporter{stopped: &stopped}
	b, cfg := c06New(e, 3)
	ctx := context.Background()
	scenario := vndChoice(vndParam("SCN", 2))
	var returned [3]bool
	var before [3]bool
	var wg sync.WaitGroup
	emit := func(ids ...int) {
		defer wg.Done()
		for _, i := range ids {
			r := c06Rec(i)
			b.OnEmit(ctx, &r)
			vndGhostStore(&returned[i], true)
		}
	}
	snap := func() {
		for i := range before {
			before[i] = vndGhostLoad(&returned[i])
		}
	}
	visible := func(tag string) {
		all := e.flat()
		for i := range before {
			if before[i] {
				vndAssert(c06Count(all, i) == 1, tag)
			}
		}
	}
	switch scenario {
	case 0:
		wg.Add(2)
		go emit(0, 1)
		go func() {
			defer wg.Done()
			snap()
			if b.ForceFlush(ctx) == nil {
				vndReach("flush-nil")
				visible("records-emitted-before-flush-are-exported-when-flush-returns-nil")
			}
		}()
		wg.Wait()
		b.Shutdown(ctx)
		vndGhostStore(&stopped, true)
	case 1:
		wg.Add(3)
		go emit(0)
		go emit(2)
		go func() {
			defer wg.Done()
			snap()
			if b.Shutdown(ctx) == nil {
				vndGhostStore(&stopped, true)
				vndReach("shutdown-nil")
				visible("records-emitted-before-shutdown-are-exported-when-shutdown-returns-nil")
			}
		}()
		wg.Wait()
	}
	vndReach("joined")
	all := e.flat()
	// per-goroutine emission order
	if scenario == 0 {
		i0, i1 := -1, -1
		for i, x := range all {
			if x == 0 {
				i0 = i
			}
			if x == 1 {
				i1 = i
			}
		}
		if i0 >= 0 && i1 >= 0 {
			vndAssert(i0 < i1, "records-of-one-goroutine-exported-in-emission-order")
		}
	}
	c06Common(e, cfg, 3)
}

// ---- C06.tick: the interval export. One or two records, no flush: the ticker
// may fire at any synchronisation point (or never) before Shutdown drains
func HarnessC06Tick() {
	stopped := false
	e := &c06Exporter{stopped: &stopped}
	b := NewBatchProcessor(e, WithMaxQueueSize(3), WithExportMaxBatchSize(2), WithExportBufferSize(1), WithExportInterval(time.Second), WithExportTimeout(time.Hour))
	ctx := context.Background()
	n := 1 + vndChoice(2)
	for i := 0; i < n; i++ {
		r := c06Rec(i)
		b.OnEmit(ctx, &r)
	}
	vndYield() // time passes: the poll goroutine (and the ticker) may run
	vndAssert(b.Shutdown(ctx) == nil, "shutdown-returns-nil")
	vndGhostStore(&stopped, true)
	all := e.flat()
	vndReach("ticked")
	vndAssert(len(all) == n, "every-emitted-record-exported-exactly-once")
	for i := 0; i < n; i++ {
		vndAssert(c06Count(all, i) == 1, "every-emitted-record-exported-exactly-once")
	}
	for i := 0; i+1 < len(all); i++ {
		vndAssert(all[i] < all[i+1], "records-exported-in-emission-order")
	}
	c06Common(e, c06Cfg{3, 2, 1}, n)
}

// ---- C06.timeout: the per-export deadline (ExportTimeout) may pass while a
// slow exporter that does not look at its context is still running; exports
// still never overlap, nothing is exported twice or after Shutdown
func HarnessC06ExportTimeout() {
	stopped := false
	e := &c06Exporter{stopped: &stopped}
	b := NewBatchProcessor(e, WithMaxQueueSize(2), WithExportMaxBatchSize(1), WithExportBufferSize(1),
		WithExportInterval(time.Hour), WithExportTimeout(time.Second))
	ctx := context.Background()
	for i := 0; i < 2; i++ {
		r := c06Rec(i)
		b.OnEmit(ctx, &r)
	}
	if b.ForceFlush(ctx) == nil {
		vndReach("flush-nil")
		all := e.flat()
		for i := 0; i < 2; i++ {
			vndAssert(c06Count(all, i) == 1, "after-flush-every-emitted-record-exported-exactly-once")
		}
	}
	if b.Shutdown(ctx) == nil {
		vndReach("shutdown-nil")
	}
	vndGhostStore(&stopped, true)
	c06Common(e, c06Cfg{queue: 2, batch: 1}, 2)
}

// ---- C06.flushcancelled: ForceFlush with an already-cancelled context (or one
// cancelled by another goroutine meanwhile): if it returns nil the records are
// with the exporter; in every case a later Shutdown delivers the rest exactly once
func HarnessC06FlushCancelled() {
	stopped := false
	e := &c06Exporter{stopped: &stopped}
	b := NewBatchProcessor(e, WithMaxQueueSize(2), WithExportMaxBatchSize(1+vndChoice(2)), WithExportBufferSize(1),
		WithExportInterval(time.Hour), WithExportTimeout(time.Hour))
	bg := context.Background()
	for i := 0; i < 2; i++ {
		r := c06Rec(i)
		b.OnEmit(bg, &r)
	}
	ctx, cancel := context.WithCancel(bg)
	var wg sync.WaitGroup
	if vndChoice(2) == 1 {
		cancel()
	} else {
		wg.Add(1)
		go func() { defer wg.Done(); cancel() }()
	}
	if b.ForceFlush(ctx) == nil {
		vndReach("flush-nil")
		all := e.flat()
		for i := 0; i < 2; i++ {
			vndAssert(c06Count(all, i) == 1, "after-flush-every-emitted-record-exported-exactly-once")
		}
	} else {
		vndReach("flush-error")
	}
	wg.Wait()
	cancel()
	vndAssert(b.Shutdown(bg) == nil, "shutdown-returns-nil")
	vndGhostStore(&stopped, true)
	all := e.flat()
	for i := 0; i < 2; i++ {
		vndAssert(c06Count(all, i) == 1, "record-emitted-before-shutdown-exported-exactly-once")
	}
	for i := 0; i+1 < len(all); i++ {
		vndAssert(all[i] < all[i+1], "records-exported-in-emission-order")
	}
	c06Common(e, c06Cfg{queue: 2, batch: 2}, 2)
}
