package trace

import (
	"context"
	"unicode/utf8"

	"go.opentelemetry.io/otel/attribute"
	"go.opentelemetry.io/otel/codes"
	"go.opentelemetry.io/otel/trace"
)

// ---- C04.truncate: truncate(limit, s) against the reference of DESIGN A.2

func c04RefTruncate(limit int, s string) string {
	if limit < 0 || len(s) <= limit {
		return s
	}
	var out []byte
	count := 0
	for i := 0; i < len(s) && count < limit; {
		_, size := utf8.DecodeRuneInString(s[i:])
		if size == 1 && s[i] >= utf8.RuneSelf {
			i++ // invalid byte: discarded
			continue
		}
		out = append(out, s[i:i+size]...)
		i += size
		count++
	}
	return string(out)
}

func HarnessC04Truncate() {
	s := vndString(vndParam("N", 5))
	limit := vndChoice(vndParam("L", 4)+2) - 1
	got := truncate(limit, s)
	want := c04RefTruncate(limit, s)
	if limit >= 0 && len(s) > limit {
		vndReach("cut")
		vndAssert(utf8.RuneCountInString(got) <= limit, "truncate-at-most-limit-characters")
		vndAssert(utf8.ValidString(got), "truncate-result-is-valid-utf8")
	} else {
		vndReach("unchanged")
		vndAssert(got == s, "truncate-short-string-unchanged")
	}
	vndAssert(len(got) == len(want), "truncate-equals-reference-length")
	if len(got) == len(want) {
		vndAssert(got == want, "truncate-equals-reference")
	}
}

// strings assembled from K pieces, each a symbolic choice of: an ASCII byte, a
// 2-byte rune, a 3-byte rune with prefix EF BF (covers U+FFFD = EF BF BD), a
// 4-byte rune, or one invalid byte; payload bytes symbolic within the class
func c04Piece() string {
	switch vndChoice(5) {
	case 0:
		b := vndStringN(1)
		vndAssume(b[0] < 0x80)
		return b
	case 1:
		b := vndStringN(1)
		vndAssume(vndAnd(b[0] >= 0x80, b[0] <= 0xBF))
		return "\xC3" + b
	case 2:
		b := vndStringN(1)
		vndAssume(vndAnd(b[0] >= 0x80, b[0] <= 0xBF))
		return "\xEF\xBF" + b
	case 3:
		b := vndStringN(1)
		vndAssume(vndAnd(b[0] >= 0x80, b[0] <= 0xBF))
		return "\xF0\x9F\x98" + b
	default:
		b := vndStringN(1)
		vndAssume(b[0] >= 0xF8)
		return b
	}
}

func HarnessC04TruncatePieces() {
	k := 1 + vndChoice(vndParam("K", 3))
	s := ""
	for i := 0; i < k; i++ {
		s += c04Piece()
	}
	limit := vndChoice(vndParam("L", 3) + 1)
	got := truncate(limit, s)
	want := c04RefTruncate(limit, s)
	if len(s) > limit {
		vndReach("cut")
		vndAssert(utf8.RuneCountInString(got) <= limit, "truncate-at-most-limit-characters")
		vndAssert(utf8.ValidString(got), "truncate-result-is-valid-utf8")
	}
	vndAssert(len(got) == len(want), "truncate-equals-reference-length")
	if len(got) == len(want) {
		vndAssert(got == want, "truncate-equals-reference")
	}
}

// ---- span under test, built directly (no resource detection, no environment)

type c04Recorder struct {
	ended []ReadOnlySpan
}

func (r *c04Recorder) OnStart(context.Context, ReadWriteSpan) {}
func (r *c04Recorder) OnEnd(s ReadOnlySpan)                   { r.ended = append(r.ended, s) }
func (r *c04Recorder) Shutdown(context.Context) error         { return nil }
func (r *c04Recorder) ForceFlush(context.Context) error       { return nil }

func c04Span(limits SpanLimits) (*recordingSpan, *c04Recorder) {
	rec := &c04Recorder{}
	p := &TracerProvider{spanLimits: limits}
	sps := spanProcessorStates{newSpanProcessorState(rec)}
	p.spanProcessors.Store(&sps)
	tr := &tracer{provider: p}
	sc := trace.NewSpanContext(trace.SpanContextConfig{TraceID: trace.TraceID{1}, SpanID: trace.SpanID{2}, TraceFlags: trace.FlagsSampled})
	cfg := trace.NewSpanStartConfig()
	s := tr.newRecordingSpan(trace.SpanContext{}, sc, "span", SamplingResult{Decision: RecordAndSample}, &cfg)
	return s, rec
}

func c04Limits() SpanLimits {
	return SpanLimits{AttributeValueLengthLimit: -1, AttributeCountLimit: -1, EventCountLimit: -1, LinkCountLimit: -1,
		AttributePerEventCountLimit: -1, AttributePerLinkCountLimit: -1}
}

// ---- attribute model (DESIGN A.1)

type c04Attrs struct {
	kvs     []attribute.KeyValue
	dropped int
}

func (m *c04Attrs) set(countLimit, lenLimit int, attrs []attribute.KeyValue) {
	if len(attrs) == 0 {
		return
	}
	if countLimit == 0 {
		m.dropped += len(attrs)
		return
	}
	for _, a := range attrs {
		if a.Key == "" || a.Value.Type() == attribute.INVALID {
			m.dropped++
			continue
		}
		if a.Value.Type() == attribute.STRING {
			a = a.Key.String(c04RefTruncate(lenLimit, a.Value.AsString()))
		}
		found := false
		for i := range m.kvs {
			if m.kvs[i].Key == a.Key {
				m.kvs[i] = a
				found = true
			}
		}
		if found {
			continue
		}
		if countLimit > 0 && len(m.kvs) >= countLimit {
			m.dropped++
			continue
		}
		m.kvs = append(m.kvs, a)
	}
}

// one of a few attribute shapes: duplicate keys with different types, an
// invalid key, an invalid type, symbolic INT64 / STRING payloads
func c04Attr(kinds int) attribute.KeyValue {
	switch vndChoice(kinds) {
	case 0:
		return attribute.Int64("a", vndI64())
	case 1:
		return attribute.String("b", "x"+vndStringN(1))
	case 2:
		return attribute.String("a", "y"+vndStringN(1))
	case 3:
		return attribute.Int64("c", vndI64())
	case 4:
		return attribute.Int64("", vndI64())
	default:
		return attribute.KeyValue{Key: "b"}
	}
}

func c04SameValue(a, b attribute.Value) bool {
	if a.Type() != b.Type() {
		return false
	}
	switch a.Type() {
	case attribute.INT64:
		return a.AsInt64() == b.AsInt64()
	case attribute.STRING:
		x, y := a.AsString(), b.AsString()
		if len(x) != len(y) {
			return false
		}
		return x == y
	}
	return true
}

func c04CompareAttrs(got []attribute.KeyValue, gotDropped int, m *c04Attrs, tag string) {
	vndAssert(gotDropped == m.dropped, tag+"-dropped-attribute-count-exact")
	vndAssert(len(got) == len(m.kvs), tag+"-attribute-count-equals-model")
	if len(got) != len(m.kvs) {
		return
	}
	for i := range got {
		vndAssert(got[i].Key == m.kvs[i].Key, tag+"-attribute-order-is-first-insertion")
		vndAssert(c04SameValue(got[i].Value, m.kvs[i].Value), tag+"-last-value-wins-and-truncated")
	}
}

// C04.attrs: K SetAttributes calls from a new span, then End; the exported
// span equals the model.
func HarnessC04Attrs() {
	limits := c04Limits()
	limits.AttributeCountLimit = vndChoice(vndParam("CL", 4)+1) - 1 // -1 .. CL-1
	limits.AttributeValueLengthLimit = vndChoice(3) - 1            // -1, 0, 1
	s, rec := c04Span(limits)
	m := &c04Attrs{}
	kinds := vndParam("KINDS", 5)
	calls := vndParam("K", 2)
	for c := 0; c < calls; c++ {
		n := 1 + vndChoice(2)
		attrs := make([]attribute.KeyValue, n)
		for i := range attrs {
			attrs[i] = c04Attr(kinds)
		}
		m.set(limits.AttributeCountLimit, limits.AttributeValueLengthLimit, attrs)
		s.SetAttributes(attrs...)
	}
	if limits.AttributeCountLimit > 0 && m.dropped > 0 {
		vndReach("dropped-over-limit")
	}
	if limits.AttributeCountLimit > 0 && len(m.kvs) == limits.AttributeCountLimit {
		vndReach("full")
	}
	s.End()
	vndAssert(len(rec.ended) == 1, "end-delivers-once")
	if len(rec.ended) != 1 {
		return
	}
	ro := rec.ended[0]
	c04CompareAttrs(ro.Attributes(), ro.DroppedAttributes(), m, "exported")
	if limits.AttributeCountLimit > 0 {
		vndAssert(len(ro.Attributes()) <= limits.AttributeCountLimit, "never-more-attributes-than-limit")
	}
}

// C04.queue: events and links under count limits and per-item attribute caps
func HarnessC04Events() {
	limits := c04Limits()
	limits.EventCountLimit = vndChoice(4) - 1             // -1,0,1,2
	limits.AttributePerEventCountLimit = vndChoice(3) - 1 // -1,0,1
	s, rec := c04Span(limits)
	type ev struct {
		name         string
		attrs        int
		droppedAttrs int
		first        int64
		user         int // how many of the offered attributes are the caller's
	}
	var model []ev
	dropped := 0
	names := []string{"e0", "e1", "e2", "e3"}
	k := 1 + vndChoice(vndParam("K", 3))
	for i := 0; i < k; i++ {
		na := vndChoice(3)
		var as []attribute.KeyValue
		first := vndI64()
		for j := 0; j < na; j++ {
			as = append(as, attribute.Int64("k", first+int64(j)))
		}
		// an ordinary event, or an error recorded as an "exception" event whose
		// exception.type / exception.message attributes follow the caller's and
		// count against the same per-event cap
		e := ev{name: names[i], attrs: na, first: first, user: na}
		if vndChoice(2) == 1 {
			s.RecordError(errC04{}, trace.WithAttributes(as...))
			e.name, e.attrs = "exception", na+2
		} else {
			s.AddEvent(names[i], trace.WithAttributes(as...))
		}
		if l := limits.AttributePerEventCountLimit; l == 0 {
			e.droppedAttrs, e.attrs = e.attrs, 0
		} else if l > 0 && e.attrs > l {
			e.droppedAttrs, e.attrs = e.attrs-l, l
		}
		switch c := limits.EventCountLimit; {
		case c == 0:
			dropped++
		case c > 0 && len(model) == c:
			model = append(model[1:], e)
			dropped++
			vndReach("evicted")
		default:
			model = append(model, e)
		}
	}
	s.End()
	vndAssert(len(rec.ended) == 1, "end-delivers-once")
	if len(rec.ended) != 1 {
		return
	}
	ro := rec.ended[0]
	got := ro.Events()
	vndAssert(len(got) == len(model), "event-count-equals-model")
	vndAssert(ro.DroppedEvents() == dropped, "dropped-event-count-exact")
	if len(got) != len(model) {
		return
	}
	for i := range got {
		vndAssert(got[i].Name == model[i].name, "most-recent-events-kept-in-order")
		vndAssert(len(got[i].Attributes) == model[i].attrs, "per-event-attribute-cap")
		vndAssert(got[i].DroppedAttributeCount == model[i].droppedAttrs, "per-event-dropped-attribute-count")
		for j := range got[i].Attributes {
			if j < model[i].user {
				vndAssert(got[i].Attributes[j].Value.AsInt64() == model[i].first+int64(j), "per-event-attributes-keep-first")
			}
		}
	}
}

func HarnessC04Links() {
	limits := c04Limits()
	limits.LinkCountLimit = vndChoice(4) - 1
	limits.AttributePerLinkCountLimit = vndChoice(3) - 1
	s, rec := c04Span(limits)
	type lk struct {
		id           byte
		attrs        int
		droppedAttrs int
	}
	var model []lk
	dropped := 0
	k := 1 + vndChoice(vndParam("K", 3))
	for i := 0; i < k; i++ {
		na := vndChoice(3)
		valid := vndChoice(2) == 1
		var as []attribute.KeyValue
		for j := 0; j < na; j++ {
			as = append(as, attribute.Int("k", j))
		}
		var sc trace.SpanContext
		if valid {
			sc = trace.NewSpanContext(trace.SpanContextConfig{TraceID: trace.TraceID{byte(i + 1)}, SpanID: trace.SpanID{byte(i + 1)}})
		}
		s.AddLink(trace.Link{SpanContext: sc, Attributes: as})
		if !valid && na == 0 {
			vndReach("empty-link-ignored")
			continue // ignored, not counted
		}
		e := lk{attrs: na}
		if valid {
			e.id = byte(i + 1)
		}
		if l := limits.AttributePerLinkCountLimit; l == 0 {
			e.droppedAttrs, e.attrs = na, 0
		} else if l > 0 && na > l {
			e.droppedAttrs, e.attrs = na-l, l
		}
		switch c := limits.LinkCountLimit; {
		case c == 0:
			dropped++
		case c > 0 && len(model) == c:
			model = append(model[1:], e)
			dropped++
			vndReach("evicted")
		default:
			model = append(model, e)
		}
	}
	s.End()
	if len(rec.ended) != 1 {
		vndAssert(false, "end-delivers-once")
		return
	}
	ro := rec.ended[0]
	got := ro.Links()
	vndAssert(len(got) == len(model), "link-count-equals-model")
	vndAssert(ro.DroppedLinks() == dropped, "dropped-link-count-exact")
	if len(got) != len(model) {
		return
	}
	for i := range got {
		tid := got[i].SpanContext.TraceID()
		vndAssert(tid[0] == model[i].id, "most-recent-links-kept-in-order")
		vndAssert(len(got[i].Attributes) == model[i].attrs, "per-link-attribute-cap")
		vndAssert(got[i].DroppedAttributeCount == model[i].droppedAttrs, "per-link-dropped-attribute-count")
	}
}

// C04.status: precedence Unset < Error < Ok, description only for Error
func HarnessC04Status() {
	s, rec := c04Span(c04Limits())
	cur := codes.Unset
	desc := ""
	for i := 0; i < vndParam("K", 3); i++ {
		c := codes.Code(vndU32())
		vndAssume(c <= codes.Ok)
		d := vndStringN(1)
		s.SetStatus(c, d)
		if vndSymbolic() {
			// model (forks on the symbolic code)
		}
		if c >= cur {
			cur = c
			if c == codes.Error {
				desc = d
			} else {
				desc = ""
			}
		}
	}
	s.End()
	if len(rec.ended) != 1 {
		vndAssert(false, "end-delivers-once")
		return
	}
	st := rec.ended[0].Status()
	vndReach("status")
	vndAssert(st.Code == cur, "status-precedence-unset-error-ok")
	vndAssert(len(st.Description) == len(desc), "status-description-only-for-error")
	if len(st.Description) == len(desc) {
		vndAssert(st.Description == desc, "status-description-only-for-error")
	}
}

// C04.afterEnd: calls made after End change nothing
func HarnessC04AfterEnd() {
	limits := c04Limits()
	s, rec := c04Span(limits)
	s.SetAttributes(attribute.Int64("a", vndI64()))
	s.AddEvent("e")
	s.SetStatus(codes.Error, "x")
	s.End()
	if len(rec.ended) != 1 {
		vndAssert(false, "end-delivers-once")
		return
	}
	ro := rec.ended[0]
	a0 := ro.Attributes()[0].Value.AsInt64()
	endT := ro.EndTime()
	switch vndChoice(7) {
	case 0:
		s.SetAttributes(attribute.Int64("a", vndI64()), attribute.Int64("z", 1))
	case 1:
		s.AddEvent("late")
	case 2:
		s.SetStatus(codes.Ok, "")
	case 3:
		s.SetName("renamed")
	case 4:
		s.AddLink(trace.Link{SpanContext: s.spanContext})
	case 5:
		s.RecordError(nil)
		s.RecordError(errC04{})
	case 6:
		s.End()
	}
	vndReach("after-end")
	vndAssert(len(rec.ended) == 1, "second-end-not-delivered")
	vndAssert(!s.IsRecording(), "not-recording-after-end")
	vndAssert(len(ro.Attributes()) == 1, "after-end-attributes-unchanged")
	vndAssert(ro.Attributes()[0].Value.AsInt64() == a0, "after-end-attributes-unchanged")
	vndAssert(len(ro.Events()) == 1, "after-end-events-unchanged")
	vndAssert(len(ro.Links()) == 0, "after-end-links-unchanged")
	vndAssert(ro.Status().Code == codes.Error, "after-end-status-unchanged")
	vndAssert(ro.Name() == "span", "after-end-name-unchanged")
	vndAssert(ro.EndTime().Equal(endT), "after-end-end-time-unchanged")
	// and the span's own view
	sn := s.snapshot()
	vndAssert(len(sn.Attributes()) == 1, "after-end-span-attributes-unchanged")
	vndAssert(len(sn.Events()) == 1, "after-end-span-events-unchanged")
	vndAssert(len(sn.Links()) == 0, "after-end-span-links-unchanged")
	vndAssert(sn.Status().Code == codes.Error, "after-end-span-status-unchanged")
	vndAssert(sn.Name() == "span", "after-end-span-name-unchanged")
	vndAssert(sn.EndTime().Equal(endT), "after-end-span-end-time-unchanged")
}

type errC04 struct{}

func (errC04) Error() string { return "e" }

// nil receivers never panic
func HarnessC04Nil() {
	var s *recordingSpan
	s.SetAttributes(attribute.Int("a", 1))
	s.AddEvent("e")
	s.SetStatus(codes.Ok, "")
	s.SetName("n")
	s.AddLink(trace.Link{})
	s.RecordError(errC04{})
	s.End()
	vndReach("nil-ok")
	vndAssert(!s.IsRecording(), "nil-span-not-recording")
}
