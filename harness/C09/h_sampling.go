package trace

import (
	"context"
	"math/rand"

	"go.opentelemetry.io/otel/trace"
)

// ---- C09.ratio

func c09Sampled(s Sampler, id trace.TraceID) bool {
	return s.ShouldSample(SamplingParameters{ParentContext: context.Background(), TraceID: id}).Decision == RecordAndSample
}

func HarnessC09Ratio() {
	r1, r2 := vndF64(), vndF64()
	vndAssume(vndAnd(r1 == r1, r2 == r2)) // NaN excluded: float->uint64 of NaN is implementation-defined
	vndAssume(r1 <= r2)
	var id trace.TraceID
	for i := range id {
		id[i] = vndU8()
	}
	s1, s2 := TraceIDRatioBased(r1), TraceIDRatioBased(r2)
	a, b := c09Sampled(s1, id), c09Sampled(s2, id)
	vndReach("ratio")
	vndAssert(vndImplies(a, b), "ratio-monotone-sampled-at-r-implies-sampled-at-larger-r")
	vndAssert(vndImplies(r1 <= 0, !a), "ratio-zero-samples-nothing")
	vndAssert(vndImplies(r1 >= 1, a), "ratio-one-samples-everything")
	// deterministic function of the low 8 bytes only
	id2 := id
	for i := 0; i < 8; i++ {
		id2[i] = vndU8()
	}
	vndAssert(c09Sampled(s1, id2) == a, "ratio-decision-depends-only-on-low-trace-id-bytes")
	// the share tracks r: the decision is  x < floor(r * 2^63)  for the 63-bit value x
	if r1 > 0 && r1 < 1 {
		vndReach("ratio-inner")
		var x uint64
		for i := 8; i < 16; i++ {
			x = x<<8 | uint64(id[i])
		}
		x >>= 1
		bound := uint64(r1 * (1 << 63))
		vndAssert(a == (x < bound), "ratio-threshold-is-floor-r-times-2-63")
		// and floor(r*2^63) is within one unit of r*2^63 (exact product, truncation only)
		vndAssert(float64(bound) <= r1*(1<<63), "ratio-threshold-not-above-r")
	}
}

// the parent's tracestate is carried by the ratio sampler's result
func HarnessC09RatioState() {
	ts, _ := trace.ParseTraceState("a=1")
	psc := trace.NewSpanContext(trace.SpanContextConfig{TraceID: trace.TraceID{1}, SpanID: trace.SpanID{1}, TraceState: ts})
	var id trace.TraceID
	id[8] = vndU8()
	id[15] = vndU8()
	res := TraceIDRatioBased(0.5).ShouldSample(SamplingParameters{ParentContext: trace.ContextWithSpanContext(context.Background(), psc), TraceID: id})
	vndReach("state")
	vndAssert(res.Tracestate.String() == "a=1", "ratio-keeps-parent-tracestate")
}

// ---- C09.newSpan

type c09Sampler struct {
	decision SamplingDecision
	other    bool // supply another tracestate
	calls    int
}

func (s *c09Sampler) ShouldSample(p SamplingParameters) SamplingResult {
	s.calls++
	ts := trace.SpanContextFromContext(p.ParentContext).TraceState()
	if s.other {
		ts, _ = trace.ParseTraceState("s=1")
	}
	return SamplingResult{Decision: s.decision, Tracestate: ts}
}
func (s *c09Sampler) Description() string { return "c09" }

type c09IDs struct {
	tid trace.TraceID
	sid trace.SpanID
}

func (g *c09IDs) NewIDs(context.Context) (trace.TraceID, trace.SpanID) { return g.tid, g.sid }
func (g *c09IDs) NewSpanID(context.Context, trace.TraceID) trace.SpanID { return g.sid }

type c09Proc struct {
	started, ended int
	endedSampled   int
}

func (r *c09Proc) OnStart(context.Context, ReadWriteSpan) { r.started++ }
func (r *c09Proc) OnEnd(s ReadOnlySpan) {
	r.ended++
	if s.SpanContext().IsSampled() {
		r.endedSampled++
	}
}
func (r *c09Proc) Shutdown(context.Context) error   { return nil }
func (r *c09Proc) ForceFlush(context.Context) error { return nil }

func HarnessC09NewSpan() {
	gen := &c09IDs{}
	gen.tid[0], gen.tid[15] = vndU8(), vndU8()
	gen.sid[0], gen.sid[7] = vndU8(), vndU8()
	vndAssume(vndAnd(gen.tid.IsValid(), gen.sid.IsValid()))
	smp := &c09Sampler{decision: SamplingDecision(vndChoice(3)), other: vndChoice(2) == 1}
	proc := &c09Proc{}
	p := &TracerProvider{sampler: smp, idGenerator: gen, spanLimits: NewSpanLimits()}
	sps := spanProcessorStates{newSpanProcessorState(proc)}
	p.spanProcessors.Store(&sps)
	tr := &tracer{provider: p}

	// parent: absent / local / remote; trace id valid or not; arbitrary flags
	ctx := context.Background()
	parentKind := vndChoice(3)
	var psc trace.SpanContext
	parentValidTID := false
	if parentKind != 0 {
		pts, _ := trace.ParseTraceState("p=1")
		cfg := trace.SpanContextConfig{TraceFlags: trace.TraceFlags(vndU8()), Remote: parentKind == 2, TraceState: pts}
		cfg.TraceID[3] = vndU8()
		cfg.SpanID[3] = vndU8()
		psc = trace.NewSpanContext(cfg)
		parentValidTID = psc.TraceID().IsValid()
		ctx = trace.ContextWithSpanContext(ctx, psc)
	}
	_, span := tr.Start(ctx, "s")
	sc := span.SpanContext()
	vndReach("started")
	vndAssert(smp.calls == 1, "sampler-consulted-once")
	vndAssert(sc.SpanID() == gen.sid, "span-id-from-generator")
	vndAssert(sc.SpanID().IsValid(), "span-id-valid")
	if parentValidTID {
		vndReach("child")
		vndAssert(sc.TraceID() == psc.TraceID(), "child-inherits-parent-trace-id")
	} else {
		vndReach("root")
		vndAssert(sc.TraceID() == gen.tid, "root-gets-fresh-trace-id")
	}
	vndAssert(sc.TraceID().IsValid(), "trace-id-valid")
	vndAssert(sc.IsSampled() == (smp.decision == RecordAndSample), "sampled-flag-iff-record-and-sample")
	vndAssert(sc.TraceFlags()&^trace.FlagsSampled == psc.TraceFlags()&^trace.FlagsSampled, "other-parent-flag-bits-preserved")
	vndAssert(span.IsRecording() == (smp.decision != Drop), "records-iff-not-drop")
	wantTS := psc.TraceState().String()
	if smp.other {
		wantTS = "s=1"
	}
	vndAssert(sc.TraceState().String() == wantTS, "parent-tracestate-kept-unless-sampler-supplies-another")
	wantStart := 0
	if smp.decision != Drop {
		wantStart = 1
	}
	vndAssert(proc.started == wantStart, "onstart-only-for-recording-spans")
	span.End()
	vndAssert(proc.ended == wantStart, "onend-only-for-recording-spans")
	// reaches exporters exactly when sampled: simple processor and batch enqueue
	exp := &c09Exporter{}
	ssp := NewSimpleSpanProcessor(exp)
	bsp := &batchSpanProcessor{queue: make(chan ReadOnlySpan, 1)}
	if ro, ok := span.(ReadOnlySpan); ok {
		ssp.OnEnd(ro)
		queued := bsp.enqueueDrop(context.Background(), ro)
		vndAssert(queued == sc.IsSampled(), "batch-processor-queues-iff-sampled")
		// the blocking mode's enqueue (WithBlocking) obeys the same rule
		bspB := &batchSpanProcessor{queue: make(chan ReadOnlySpan, 1)}
		queuedB := bspB.enqueueBlockOnQueueFull(context.Background(), ro)
		vndAssert(queuedB == sc.IsSampled() && len(bspB.queue) == c09Len(sc.IsSampled()), "blocking-batch-processor-queues-iff-sampled")
	}
	wantExp := 0
	if smp.decision == RecordAndSample {
		wantExp = 1
	}
	vndAssert(exp.n == wantExp, "simple-processor-exports-iff-sampled")
}

func c09Len(b bool) int {
	if b {
		return 1
	}
	return 0
}

type c09Exporter struct{ n int }

func (e *c09Exporter) ExportSpans(_ context.Context, s []ReadOnlySpan) error { e.n += len(s); return nil }
func (e *c09Exporter) Shutdown(context.Context) error                       { return nil }

// ---- C09.parentBased: dispatch table and defaults

type c09Tag struct{ tag int }

func (s c09Tag) ShouldSample(p SamplingParameters) SamplingResult {
	return SamplingResult{Decision: RecordAndSample, Attributes: nil, Tracestate: trace.TraceState{}}
}
func (s c09Tag) Description() string { return "tag" }

type c09Which struct{ which *int; tag int }

func (s c09Which) ShouldSample(p SamplingParameters) SamplingResult {
	*s.which = s.tag
	return SamplingResult{Decision: Drop}
}
func (s c09Which) Description() string { return "which" }

func HarnessC09ParentBased() {
	which := -1
	pb := ParentBased(c09Which{&which, 0},
		WithRemoteParentSampled(c09Which{&which, 1}), WithRemoteParentNotSampled(c09Which{&which, 2}),
		WithLocalParentSampled(c09Which{&which, 3}), WithLocalParentNotSampled(c09Which{&which, 4}))
	def := ParentBased(NeverSample())
	cfg := trace.SpanContextConfig{TraceFlags: trace.TraceFlags(vndU8()), Remote: vndBool()}
	cfg.TraceID[0] = vndU8()
	cfg.SpanID[0] = vndU8()
	psc := trace.NewSpanContext(cfg)
	ctx := trace.ContextWithSpanContext(context.Background(), psc)
	pb.ShouldSample(SamplingParameters{ParentContext: ctx, TraceID: trace.TraceID{9}})
	want := 0
	if psc.IsValid() {
		switch {
		case psc.IsRemote() && psc.IsSampled():
			want = 1
		case psc.IsRemote():
			want = 2
		case psc.IsSampled():
			want = 3
		default:
			want = 4
		}
		vndReach("valid-parent")
	} else {
		vndReach("no-parent")
	}
	vndAssert(which == want, "parent-based-dispatch-table")
	// defaults: a child gets the decision of its parent
	res := def.ShouldSample(SamplingParameters{ParentContext: ctx, TraceID: trace.TraceID{9}})
	if psc.IsValid() {
		vndAssert((res.Decision == RecordAndSample) == psc.IsSampled(), "default-parent-based-follows-parent")
	} else {
		vndAssert(res.Decision == Drop, "default-parent-based-uses-root-sampler-without-parent")
	}
}

// ---- C09.idgen: the random source yields arbitrary bytes; ids are the first
// non-zero draw (retry loop unwound under the assumption that a non-zero
// draw arrives within 2 attempts)
var c09Draws int

func c09RandRead(r *rand.Rand, p []byte) (int, error) {
	c09Draws++
	vndAssume(c09Draws <= 4)
	for i := range p {
		p[i] = 0
	}
	// one arbitrary byte, the rest zero: covers "all zero" and "valid"
	p[len(p)-1] = vndU8()
	return len(p), nil
}

func HarnessC09IDGen() {
	c09Draws = 0
	gen := &randomIDGenerator{randSource: rand.New(rand.NewSource(1))}
	tid, sid := gen.NewIDs(context.Background())
	vndReach("ids")
	vndAssert(tid.IsValid(), "generated-trace-id-valid")
	vndAssert(sid.IsValid(), "generated-span-id-valid")
	sid2 := gen.NewSpanID(context.Background(), tid)
	vndAssert(sid2.IsValid(), "generated-span-id-valid")
}
