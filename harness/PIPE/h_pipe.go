package metric

import (
	"sync"
	"time"
	"context"
	"strings"

	"go.opentelemetry.io/otel/attribute"
	"go.opentelemetry.io/otel/metric"
	"go.opentelemetry.io/otel/sdk/instrumentation"
	"go.opentelemetry.io/otel/sdk/metric/exemplar"
	"go.opentelemetry.io/otel/sdk/metric/metricdata"
	"go.opentelemetry.io/otel/sdk/resource"
)

func pipeProvider(views []View, readers ...Reader) *MeterProvider {
	conf := config{res: resource.Empty(), readers: readers, views: views, exemplarFilter: exemplar.AlwaysOffFilter}
	flush, sdown := conf.readerSignals()
	return &MeterProvider{pipes: newPipelines(conf.res, conf.readers, conf.views, conf.exemplarFilter), forceFlush: flush, shutdown: sdown}
}

func pipeDelta(InstrumentKind) metricdata.Temporality { return metricdata.DeltaTemporality }

var pipeSets = []attribute.Set{
	attribute.NewSet(attribute.String("k", "a"), attribute.String("x", "1")),
	attribute.NewSet(attribute.String("k", "a"), attribute.String("x", "2")),
	attribute.NewSet(attribute.String("k", "b")),
}

// total of an int64 metric's data points and whether it is a sum or a histogram
func pipeTotal(m metricdata.Metrics) (total int64, points int, ok bool) {
	switch d := m.Data.(type) {
	case metricdata.Sum[int64]:
		for _, p := range d.DataPoints {
			total += p.Value
		}
		return total, len(d.DataPoints), true
	case metricdata.Histogram[int64]:
		for _, p := range d.DataPoints {
			total += p.Sum
		}
		return total, len(d.DataPoints), true
	}
	return 0, 0, false
}

// C12.views: any two views from a table (rename, rename differing in case only,
// drop, attribute filter, re-aggregation, identity wildcard, non-matching):
// every stream that is reported carries every measurement exactly once.
func HarnessC12Views() {
	type vk struct {
		name string
		drop bool
		hist bool
		filt bool
		miss bool
		crit *Instrument // criteria other than {Name: "c"}
	}
	table := []vk{
		{},                       // no view in this slot
		{name: "c"},              // identity
		{name: "x"},              // rename
		{name: "X"},              // rename differing only in case
		{drop: true},             // drop aggregation
		{name: "c", filt: true},  // attribute filter keeping k
		{name: "c", hist: true},  // re-aggregate as histogram
		{name: "x", miss: true},  // criteria that do not match
		// wildcard names combined with the other criteria (the counter "c" has
		// no unit or description and lives in scope "m")
		// (a wildcard view cannot rename)
		{hist: true, crit: &Instrument{Name: "*", Scope: instrumentation.Scope{Name: "m"}}},
		{hist: true, miss: true, crit: &Instrument{Name: "*", Scope: instrumentation.Scope{Name: "other"}}},
		{drop: true, miss: true, crit: &Instrument{Name: "?", Kind: InstrumentKindHistogram}},
		{hist: true, miss: true, crit: &Instrument{Name: "*", Unit: "ms"}},
		{drop: true, miss: true, crit: &Instrument{Name: "c*", Description: "zz"}},
		{drop: true, miss: true, crit: &Instrument{Name: "*", Scope: instrumentation.Scope{Name: "m", Version: "v9"}}},
	}
	nv := vndParam("VIEWS", 2)
	var views []View
	var chosen []vk
	for i := 0; i < nv; i++ {
		c := vndChoice(len(table))
		if c == 0 {
			continue
		}
		k := table[c]
		crit := Instrument{Name: "c"}
		if k.miss {
			crit = Instrument{Name: "other"}
		}
		if k.crit != nil {
			crit = *k.crit
		}
		st := Stream{Name: k.name}
		if k.drop {
			st.Aggregation = AggregationDrop{}
		}
		if k.hist {
			st.Aggregation = AggregationExplicitBucketHistogram{Boundaries: []float64{0, 10}}
		}
		if k.filt {
			// (the caller's key slice is changed afterwards: the filter must not alias it)
			fk := []attribute.Key{"k"}
			st.AttributeFilter = attribute.NewAllowKeysFilter(fk...)
			fk[0] = "x"
		}
		views = append(views, NewView(crit, st))
		chosen = append(chosen, k)
	}
	r := NewManualReader()
	mp := pipeProvider(views, r)
	c, err := mp.Meter("m").Int64Counter("c")
	vndAssert(err == nil, "instrument-created")
	n := vndParam("K", 2)
	var want int64
	for i := 0; i < n; i++ {
		v := int64(vndInt(0, 100))
		want += v
		c.Add(context.Background(), v, metric.WithAttributeSet(pipeSets[vndChoice(len(pipeSets))]))
	}
	var rm metricdata.ResourceMetrics
	vndAssert(r.Collect(context.Background(), &rm) == nil, "collect-no-error")

	// expected streams: the SDK identifies a stream by its (case-insensitive)
	// name, description, unit, instrument kind and number type; the first
	// matching view that produces an identity decides its aggregation (drop
	// included) and later views producing the same identity reuse it
	type sk struct {
		name string
		hist bool
		drop bool
	}
	var ident []sk
	matched := false
	for _, k := range chosen {
		if k.miss {
			continue
		}
		matched = true
		name := k.name
		if name == "" {
			name = "c"
		}
		e := sk{strings.ToLower(name), k.hist, k.drop}
		dup := false
		for _, o := range ident {
			if o.name == e.name {
				dup = true
			}
		}
		if !dup {
			ident = append(ident, e)
		}
	}
	if !matched {
		ident = append(ident, sk{"c", false, false})
	}
	// when the only matching views are attribute-filter views, every reported
	// point carries exactly the kept key
	onlyFilterViews := matched
	for _, k := range chosen {
		if !k.miss && !k.filt {
			onlyFilterViews = false
		}
	}
	var expect []sk
	for _, e := range ident {
		if !e.drop {
			expect = append(expect, e)
		}
	}
	got := 0
	for _, sm := range rm.ScopeMetrics {
		for _, m := range sm.Metrics {
			got++
			total, points, ok := pipeTotal(m)
			vndAssert(ok, "reported-stream-is-a-sum-or-histogram")
			vndAssert(total == want, "every-stream-carries-every-measurement-exactly-once")
			vndAssert(points <= len(pipeSets), "no-more-points-than-attribute-sets")
			_, isHist := m.Data.(metricdata.Histogram[int64])
			if sum, ok := m.Data.(metricdata.Sum[int64]); ok && onlyFilterViews {
				for _, p := range sum.DataPoints {
					_, hasK := p.Attributes.Value("k")
					vndAssert(p.Attributes.Len() == 1 && hasK, "measurement-reported-under-its-filtered-attribute-set")
				}
			}
			found := false
			for _, e := range expect {
				if e.name == strings.ToLower(m.Name) && e.hist == isHist {
					found = true
				}
			}
			vndAssert(found, "reported-stream-was-asked-for")
		}
	}
	if len(expect) == 0 {
		vndReach("all-dropped")
		vndAssert(got == 0, "drop-aggregation-reports-nothing")
	} else {
		vndReach("streams")
		if n > 0 {
			vndAssert(got == len(expect), "one-stream-per-distinct-view-result")
		}
	}
}

// C08.callbacks / C02.readers: three callbacks observing one attribute set each on
// one observable counter, registered and unregistered in any order between
// collections of a delta and a cumulative reader.
func HarnessC08Callbacks() {
	rd := NewManualReader(WithTemporalitySelector(pipeDelta))
	rc := NewManualReader()
	mp := pipeProvider(nil, rd, rc)
	meter := mp.Meter("m")
	oc, err := meter.Int64ObservableCounter("oc")
	vndAssert(err == nil, "instrument-created")
	const nc = 3
	sets := []attribute.Set{attribute.NewSet(attribute.Int("cb", 0)), attribute.NewSet(attribute.Int("cb", 1)), attribute.NewSet(attribute.Int("cb", 2))}
	var cur [nc]int64 // value each callback observes in the current cycle
	var regs [nc]metric.Registration
	var prevD [nc]int64 // value observed in the preceding cycle of the delta reader (0 if not observed)
	register := func(i int) {
		reg, err := meter.RegisterCallback(func(_ context.Context, o metric.Observer) error {
			o.ObserveInt64(oc, cur[i], metric.WithAttributeSet(sets[i]))
			return nil
		}, oc)
		vndAssert(err == nil, "register-no-error")
		regs[i] = reg
	}
	// pre-state: none or all three registered in order
	if vndChoice(2) == 1 {
		for i := 0; i < nc; i++ {
			register(i)
		}
	}
	steps := vndParam("STEPS", 4)
	cycles := 0
	for s := 0; s < steps; s++ {
		op := vndChoice(3)
		i := 0
		if op != 2 {
			i = vndChoice(nc)
		}
		switch op {
		case 0: // register callback i
			if regs[i] != nil {
				return // a no-op step: the shorter history is explored as a prefix
			}
			register(i)
		case 1: // unregister callback i
			if regs[i] == nil {
				return
			}
			vndAssert(regs[i].Unregister() == nil, "unregister-no-error")
			regs[i] = nil
		case 2: // one cycle: both readers collect
			cycles++
			for j := range cur {
				cur[j] = int64(vndInt(0, 50))
			}
			var rmD, rmC metricdata.ResourceMetrics
			vndAssert(rd.Collect(context.Background(), &rmD) == nil, "collect-no-error")
			vndAssert(rc.Collect(context.Background(), &rmC) == nil, "collect-no-error")
			for which, rm := range []*metricdata.ResourceMetrics{&rmD, &rmC} {
				var pts []metricdata.DataPoint[int64]
				for _, sm := range rm.ScopeMetrics {
					for _, m := range sm.Metrics {
						if d, ok := m.Data.(metricdata.Sum[int64]); ok {
							pts = d.DataPoints
						}
					}
				}
				nreg := 0
				for j := 0; j < nc; j++ {
					var p *metricdata.DataPoint[int64]
					for k := range pts {
						if pts[k].Attributes.Equals(&sets[j]) {
							p = &pts[k]
						}
					}
					if regs[j] == nil {
						vndAssert(p == nil, "unregistered-callback-reports-nothing")
						continue
					}
					nreg++
					vndAssert(p != nil, "registered-callback-set-is-reported")
					if p == nil {
						continue
					}
					if which == 0 {
						vndAssert(p.Value == cur[j]-prevD[j], "delta-is-observed-minus-preceding-cycle")
					} else {
						vndAssert(p.Value == cur[j], "cumulative-is-the-observed-value")
					}
					vndAssert(!p.StartTime.After(p.Time), "start-not-after-time")
				}
				vndAssert(len(pts) == nreg, "exactly-the-observed-sets-are-reported")
			}
			for j := 0; j < nc; j++ {
				if regs[j] != nil {
					prevD[j] = cur[j]
				} else {
					prevD[j] = 0
				}
			}
		}
	}
	if cycles >= 2 {
		vndReach("two-cycles")
	}
}

// C02.readers: every measurement is seen by every registered reader; the delta
// reader's collections add up to the cumulative reader's latest value.
func HarnessC02Readers() {
	rd := NewManualReader(WithTemporalitySelector(pipeDelta))
	rc := NewManualReader()
	// without views, or with two views that rename the instrument to names
	// differing only in case (one stream identity: still counted once)
	var views []View
	vc := vndChoice(3)
	switch vc {
	case 1:
		views = []View{NewView(Instrument{Name: "c"}, Stream{Name: "x"}), NewView(Instrument{Name: "c"}, Stream{Name: "X"})}
	case 2:
		// a valid renaming view next to a view whose aggregation the instrument
		// kind does not support: the latter is reported and skipped, the former
		// still carries every measurement
		views = []View{NewView(Instrument{Name: "c"}, Stream{Name: "x"}), NewView(Instrument{Name: "*"}, Stream{Aggregation: AggregationLastValue{}})}
	}
	mp := pipeProvider(views, rd, rc)
	c, err := mp.Meter("m").Int64UpDownCounter("c")
	if vc == 2 {
		vndAssert(err != nil && c != nil, "incompatible-view-reported-instrument-still-returned")
	} else {
		vndAssert(err == nil, "instrument-created")
	}
	steps := vndParam("STEPS", 4)
	var total, deltaTotal, cumLatest [2]int64
	read := func(r Reader, into *[2]int64, add bool) {
		var rm metricdata.ResourceMetrics
		vndAssert(r.Collect(context.Background(), &rm) == nil, "collect-no-error")
		var seen [2]bool
		for _, sm := range rm.ScopeMetrics {
			for _, m := range sm.Metrics {
				d, ok := m.Data.(metricdata.Sum[int64])
				vndAssert(ok, "sum-reported")
				for _, p := range d.DataPoints {
					for j := 0; j < 2; j++ {
						if p.Attributes.Equals(&pipeSets[j]) {
							vndAssert(!seen[j], "one-point-per-attribute-set")
							seen[j] = true
							if add {
								into[j] += p.Value
							} else {
								into[j] = p.Value
							}
						}
					}
				}
			}
		}
	}
	for s := 0; s < steps; s++ {
		switch vndChoice(3) {
		case 0:
			v := int64(vndInt(-20, 20))
			j := vndChoice(2)
			total[j] += v
			c.Add(context.Background(), v, metric.WithAttributeSet(pipeSets[j]))
		case 1:
			read(rd, &deltaTotal, true)
		case 2:
			read(rc, &cumLatest, false)
			for j := 0; j < 2; j++ {
				vndAssert(cumLatest[j] == total[j], "cumulative-reader-sees-the-running-total")
			}
		}
	}
	read(rd, &deltaTotal, true)
	read(rc, &cumLatest, false)
	vndReach("final")
	for j := 0; j < 2; j++ {
		vndAssert(deltaTotal[j] == total[j], "delta-collections-add-up-to-the-total")
		vndAssert(cumLatest[j] == total[j], "cumulative-reader-sees-the-running-total")
	}
}

// exporter model for the periodic reader: delta temporality, adds every
// exported int64 sum point to a per-set ledger (ghost state under its own lock)
type pipeExporter struct {
	mu       sync.Mutex
	total    [2]int64
	exports  int
	shutdown int
}

func (e *pipeExporter) Temporality(InstrumentKind) metricdata.Temporality { return metricdata.DeltaTemporality }
func (e *pipeExporter) Aggregation(k InstrumentKind) Aggregation         { return DefaultAggregationSelector(k) }
func (e *pipeExporter) ForceFlush(context.Context) error                 { return nil }
func (e *pipeExporter) Shutdown(context.Context) error {
	e.mu.Lock()
	e.shutdown++
	e.mu.Unlock()
	return nil
}

func (e *pipeExporter) Export(_ context.Context, rm *metricdata.ResourceMetrics) error {
	e.mu.Lock()
	defer e.mu.Unlock()
	e.exports++
	for _, sm := range rm.ScopeMetrics {
		for _, m := range sm.Metrics {
			if d, ok := m.Data.(metricdata.Sum[int64]); ok {
				for _, p := range d.DataPoints {
					for j := 0; j < 2; j++ {
						if p.Attributes.Equals(&pipeSets[j]) {
							e.total[j] += p.Value
						}
					}
				}
			}
		}
	}
	return nil
}

// C02.periodic: a counter recorded from two goroutines while a periodic reader
// exports on its interval (virtual ticker), through ForceFlush and the final
// collection of Shutdown: the delta exports add up to exactly what was recorded.
func HarnessC02Periodic() {
	exp := &pipeExporter{}
	r := NewPeriodicReader(exp, WithInterval(time.Second), WithTimeout(time.Hour))
	mp := pipeProvider(nil, r)
	c, err := mp.Meter("m").Int64Counter("c")
	vndAssert(err == nil, "instrument-created")
	v0, v1, v2 := int64(vndInt(0, 100)), int64(vndInt(0, 100)), int64(vndInt(0, 100))
	done := make(chan struct{})
	two := vndParam("ADDS", 1) >= 2
	if !two {
		v2 = 0
	}
	go func() {
		c.Add(context.Background(), v1, metric.WithAttributeSet(pipeSets[0]))
		if two {
			c.Add(context.Background(), v2, metric.WithAttributeSet(pipeSets[1]))
		}
		close(done)
	}()
	c.Add(context.Background(), v0, metric.WithAttributeSet(pipeSets[0]))
	if vndChoice(2) == 1 {
		vndAssert(mp.ForceFlush(context.Background()) == nil, "force-flush-no-error")
		vndReach("flushed")
	}
	<-done
	vndAssert(mp.Shutdown(context.Background()) == nil, "shutdown-no-error")
	vndReach("shutdown")
	exp.mu.Lock()
	t0, t1, sd := exp.total[0], exp.total[1], exp.shutdown
	exp.mu.Unlock()
	vndAssert(t0 == v0+v1, "exports-add-up-to-the-recorded-total")
	vndAssert(t1 == v2, "exports-add-up-to-the-recorded-total")
	vndAssert(sd == 1, "exporter-shut-down-once")
}

// C08.instcallbacks: the six observable instrument kinds created with their own
// callback option (WithInt64Callback / WithFloat64Callback), read by a delta and
// a cumulative reader over CYCLES cycles: each reader's pipeline sees each
// observation exactly once
func HarnessC08InstrumentCallbacks() {
	rd := NewManualReader(WithTemporalitySelector(pipeDelta))
	rc := NewManualReader()
	mp := pipeProvider(nil, rd, rc)
	meter := mp.Meter("m")
	kind := vndChoice(6)
	ncb := 1 + vndChoice(2) // one or two callbacks on the instrument
	var cur [2]int64
	set := func(i int) metric.MeasurementOption { return metric.WithAttributeSet(pipeSets[i]) }
	var err error
	if kind < 3 {
		var opts []metric.Int64ObservableOption
		for i := 0; i < ncb; i++ {
			i := i
			opts = append(opts, metric.WithInt64Callback(func(_ context.Context, o metric.Int64Observer) error {
				o.Observe(cur[i], set(i))
				return nil
			}))
		}
		switch kind {
		case 0:
			var oc []metric.Int64ObservableCounterOption
			for _, o := range opts {
				oc = append(oc, o)
			}
			_, err = meter.Int64ObservableCounter("o", oc...)
		case 1:
			var oc []metric.Int64ObservableUpDownCounterOption
			for _, o := range opts {
				oc = append(oc, o)
			}
			_, err = meter.Int64ObservableUpDownCounter("o", oc...)
		case 2:
			var oc []metric.Int64ObservableGaugeOption
			for _, o := range opts {
				oc = append(oc, o)
			}
			_, err = meter.Int64ObservableGauge("o", oc...)
		}
	} else {
		var opts []metric.Float64ObservableOption
		for i := 0; i < ncb; i++ {
			i := i
			opts = append(opts, metric.WithFloat64Callback(func(_ context.Context, o metric.Float64Observer) error {
				o.Observe(float64(cur[i]), set(i))
				return nil
			}))
		}
		switch kind {
		case 3:
			var oc []metric.Float64ObservableCounterOption
			for _, o := range opts {
				oc = append(oc, o)
			}
			_, err = meter.Float64ObservableCounter("o", oc...)
		case 4:
			var oc []metric.Float64ObservableUpDownCounterOption
			for _, o := range opts {
				oc = append(oc, o)
			}
			_, err = meter.Float64ObservableUpDownCounter("o", oc...)
		case 5:
			var oc []metric.Float64ObservableGaugeOption
			for _, o := range opts {
				oc = append(oc, o)
			}
			_, err = meter.Float64ObservableGauge("o", oc...)
		}
	}
	vndAssert(err == nil, "instrument-created")
	gauge := kind == 2 || kind == 5
	var prev [2]int64
	cycles := vndParam("CYCLES", 2)
	for c := 0; c < cycles; c++ {
		for j := range cur {
			cur[j] = int64(vndInt(0, 50))
		}
		var rmD, rmC metricdata.ResourceMetrics
		vndAssert(rd.Collect(context.Background(), &rmD) == nil, "collect-no-error")
		vndAssert(rc.Collect(context.Background(), &rmC) == nil, "collect-no-error")
		for which, rm := range []*metricdata.ResourceMetrics{&rmD, &rmC} {
			// reported values, each in its own number domain
			var attrs []attribute.Set
			var vals []float64
			var ivals []int64
			for _, sm := range rm.ScopeMetrics {
				for _, m := range sm.Metrics {
					switch d := m.Data.(type) {
					case metricdata.Sum[int64]:
						for _, p := range d.DataPoints {
							attrs, ivals = append(attrs, p.Attributes), append(ivals, p.Value)
						}
					case metricdata.Sum[float64]:
						for _, p := range d.DataPoints {
							attrs, vals = append(attrs, p.Attributes), append(vals, p.Value)
						}
					case metricdata.Gauge[int64]:
						for _, p := range d.DataPoints {
							attrs, ivals = append(attrs, p.Attributes), append(ivals, p.Value)
						}
					case metricdata.Gauge[float64]:
						for _, p := range d.DataPoints {
							attrs, vals = append(attrs, p.Attributes), append(vals, p.Value)
						}
					}
				}
			}
			vndAssert(len(attrs) == ncb, "exactly-the-observed-sets-are-reported")
			for i := 0; i < ncb; i++ {
				found := false
				for k := range attrs {
					if attrs[k].Equals(&pipeSets[i]) {
						found = true
						if kind < 3 {
							want := cur[i]
							if which == 0 && !gauge {
								want = cur[i] - prev[i]
							}
							vndAssert(ivals[k] == want, "each-pipeline-sees-each-observation-exactly-once")
						} else {
							want := float64(cur[i])
							if which == 0 && !gauge {
								want = float64(cur[i]) - float64(prev[i])
							}
							vndAssert(vals[k] == want, "each-pipeline-sees-each-observation-exactly-once")
						}
					}
				}
				vndAssert(found, "observed-set-is-reported")
			}
		}
		prev = cur
	}
	vndReach("cycles-done")
}

// C12.views (observable): the same for an observable counter whose callback
// observes one value per cycle: whatever the view (rename, histogram
// re-aggregation, attribute filter), the reported total is the observed value
func HarnessC12ViewsObservable() {
	var views []View
	vk := vndChoice(5)
	switch vk {
	case 1:
		views = []View{NewView(Instrument{Name: "oc"}, Stream{Name: "x"})}
	case 2:
		views = []View{NewView(Instrument{Name: "oc"}, Stream{Aggregation: AggregationExplicitBucketHistogram{Boundaries: []float64{0, 10}}})}
	case 3:
		views = []View{NewView(Instrument{Name: "oc"}, Stream{AttributeFilter: attribute.NewAllowKeysFilter("k")})}
	case 4:
		views = []View{NewView(Instrument{Name: "oc"}, Stream{Aggregation: AggregationDrop{}})}
	}
	r := NewManualReader()
	mp := pipeProvider(views, r)
	var cur int64
	_, err := mp.Meter("m").Int64ObservableCounter("oc", metric.WithInt64Callback(func(_ context.Context, o metric.Int64Observer) error {
		o.Observe(cur, metric.WithAttributeSet(pipeSets[0]))
		return nil
	}))
	vndAssert(err == nil, "instrument-created")
	cur = int64(vndInt(1, 1000))
	var rm metricdata.ResourceMetrics
	vndAssert(r.Collect(context.Background(), &rm) == nil, "collect-no-error")
	vndReach("collected")
	got := 0
	for _, sm := range rm.ScopeMetrics {
		for _, m := range sm.Metrics {
			got++
			total, points, ok := pipeTotal(m)
			vndAssert(ok, "reported-stream-is-a-sum-or-histogram")
			vndAssert(points == 1, "one-point-for-the-one-observed-set")
			vndAssert(total == cur, "every-stream-carries-every-measurement-exactly-once")
			_, isHist := m.Data.(metricdata.Histogram[int64])
			vndAssert(isHist == (vk == 2), "aggregation-as-asked-for")
		}
	}
	if vk == 4 {
		vndAssert(got == 0, "drop-aggregation-reports-nothing")
	} else {
		vndAssert(got == 1, "one-stream-per-distinct-view-result")
	}
}

// C02.reuse: two counters of one meter, one of which may be idle in a cycle,
// read by a delta and a cumulative reader that each reuse one ResourceMetrics
// for all their collections (as exporters and the periodic reader do): the
// deltas still add up per instrument, the cumulative values are the totals
func HarnessC02Reuse() {
	rd := NewManualReader(WithTemporalitySelector(pipeDelta))
	rc := NewManualReader()
	mp := pipeProvider(nil, rd, rc)
	m := mp.Meter("m")
	names := []string{"c1", "c2"}
	var ctr [2]metric.Int64UpDownCounter
	for i := range ctr {
		c, err := m.Int64UpDownCounter(names[i])
		vndAssert(err == nil, "instrument-created")
		ctr[i] = c
	}
	var rmD, rmC metricdata.ResourceMetrics // reused
	var total, deltaTotal, cumLatest [2]int64
	read := func(r Reader, rm *metricdata.ResourceMetrics, into *[2]int64, add bool) {
		vndAssert(r.Collect(context.Background(), rm) == nil, "collect-no-error")
		var seen [2]bool
		for _, sm := range rm.ScopeMetrics {
			for _, mt := range sm.Metrics {
				d, ok := mt.Data.(metricdata.Sum[int64])
				vndAssert(ok, "sum-reported")
				for i := range names {
					if mt.Name != names[i] {
						continue
					}
					vndAssert(!seen[i], "one-stream-per-instrument")
					seen[i] = true
					vndAssert(len(d.DataPoints) == 1, "one-point-per-attribute-set")
					for _, p := range d.DataPoints {
						if add {
							into[i] += p.Value
						} else {
							into[i] = p.Value
						}
					}
				}
			}
		}
	}
	// CYCLES collection cycles: in each, either instrument records a value or
	// stays idle, then the delta reader (and optionally the cumulative one) collects
	cycles := vndParam("CYCLES", 3)
	for c := 0; c < cycles; c++ {
		for i := range ctr {
			if vndChoice(2) == 1 {
				v := int64(vndInt(-20, 20))
				total[i] += v
				ctr[i].Add(context.Background(), v, metric.WithAttributeSet(pipeSets[0]))
			}
		}
		read(rd, &rmD, &deltaTotal, true)
		if vndChoice(2) == 1 {
			read(rc, &rmC, &cumLatest, false)
		}
	}
	read(rd, &rmD, &deltaTotal, true)
	read(rc, &rmC, &cumLatest, false)
	vndReach("final")
	for i := range names {
		vndAssert(deltaTotal[i] == total[i], "delta-collections-add-up-to-the-total")
		vndAssert(cumLatest[i] == total[i], "cumulative-reader-sees-the-running-total")
	}
}
