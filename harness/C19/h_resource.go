package resource

import (
	"context"
	"errors"
	"net/url"
	"strings"

	"go.opentelemetry.io/otel/attribute"
)

var c19Schemas = []string{"", "https://s1", "https://s2"}

type c19Model struct {
	isNil  bool
	has    [2]bool // keys x, y
	val    [2]int64
	schema string
}

var c19Keys = []attribute.Key{"x", "y"}

// an arbitrary resource: nil, empty, or up to 2 valid attributes plus possibly
// an invalid (empty-key) one
func c19Resource() (*Resource, c19Model) {
	var m c19Model
	switch vndChoice(3) {
	case 0:
		m.isNil = true
		return nil, m
	case 1:
		m.schema = c19Schemas[vndChoice(3)]
		return NewWithAttributes(m.schema), m
	}
	m.schema = c19Schemas[vndChoice(3)]
	var kvs []attribute.KeyValue
	for i := 0; i < 2; i++ {
		if vndChoice(2) == 1 {
			m.has[i] = true
			m.val[i] = vndI64()
			kvs = append(kvs, c19Keys[i].Int64(m.val[i]))
		}
	}
	if vndChoice(2) == 1 {
		kvs = append(kvs, attribute.Int64("", 7)) // invalid key: must never be present
	}
	return NewWithAttributes(m.schema, kvs...), m
}

func c19MergeModel(a, b c19Model) c19Model {
	var r c19Model
	for i := 0; i < 2; i++ {
		switch {
		case b.has[i]:
			r.has[i], r.val[i] = true, b.val[i]
		case a.has[i]:
			r.has[i], r.val[i] = true, a.val[i]
		}
	}
	return r
}

func c19CheckAttrs(r *Resource, m c19Model, tag string) {
	n := 0
	for i := 0; i < 2; i++ {
		v, ok := r.Set().Value(c19Keys[i])
		vndAssert(ok == m.has[i], tag+"-attribute-presence")
		if ok && m.has[i] {
			vndAssert(v.AsInt64() == m.val[i], tag+"-attribute-value")
		}
		if m.has[i] {
			n++
		}
	}
	vndAssert(r.Len() == n, tag+"-no-other-attributes")
	_, bad := r.Set().Value("")
	vndAssert(!bad, tag+"-invalid-key-never-present")
}

// C19.merge
func HarnessC19Merge() {
	a, ma := c19Resource()
	b, mb := c19Resource()
	r, err := Merge(a, b)
	vndAssert(r != nil, "merge-never-returns-nil")
	if r == nil {
		return
	}
	want := c19MergeModel(ma, mb)
	c19CheckAttrs(r, want, "merge")
	// schema URL rule
	conflict := !ma.isNil && !mb.isNil && ma.schema != "" && mb.schema != "" && ma.schema != mb.schema
	if conflict {
		vndReach("conflict")
		vndAssert(errors.Is(err, ErrSchemaURLConflict), "conflicting-schema-urls-reported")
		vndAssert(r.SchemaURL() == "", "conflicting-schema-urls-give-empty-url")
	} else {
		vndReach("no-conflict")
		vndAssert(err == nil, "merge-without-conflict-has-no-error")
		ws := ma.schema
		if ma.isNil || ws == "" {
			ws = mb.schema
		}
		if mb.isNil && !ma.isNil {
			ws = ma.schema
		}
		vndAssert(r.SchemaURL() == ws, "schema-url-is-the-non-empty-or-common-one")
	}
	// identity with nil / empty
	if mb.isNil && !ma.isNil {
		vndAssert(r.Equal(a), "merge-with-nil-is-identity")
	}
	if ma.isNil && !mb.isNil {
		vndAssert(r.Equal(b), "merge-with-nil-is-identity")
	}
	// Equal <=> Equivalent equal
	vndAssert(r.Equal(a) == (r.Equivalent() == a.Equivalent()), "equal-iff-equal-map-identity")
}

func HarnessC19Idempotent() {
	a, ma := c19Resource()
	r, err := Merge(a, a)
	vndReach("idempotent")
	vndAssert(err == nil, "merge-with-itself-has-no-error")
	c19CheckAttrs(r, ma, "idempotent")
	vndAssert(r.Equal(a), "merge-is-idempotent")
}

func HarnessC19Assoc() {
	a, _ := c19Resource()
	b, _ := c19Resource()
	c, _ := c19Resource()
	ab, _ := Merge(a, b)
	l, _ := Merge(ab, c)
	bc, _ := Merge(b, c)
	r, _ := Merge(a, bc)
	vndReach("assoc")
	vndAssert(l.Equal(r), "merge-is-associative-on-attributes")
}

// C19.env: OTEL_RESOURCE_ATTRIBUTES parsing against a reference
func c19RefEnv(s string) (map[string]string, []string, bool) {
	attrs := map[string]string{}
	var order []string
	missing := false
	if s == "" {
		return attrs, order, false
	}
	for _, p := range strings.Split(s, ",") {
		i := strings.IndexByte(p, '=')
		if i < 0 {
			missing = true
			continue
		}
		k := strings.TrimSpace(p[:i])
		v := p[i+1:]
		if d, err := url.PathUnescape(strings.TrimSpace(v)); err == nil {
			v = d
		}
		if k == "" {
			continue
		}
		if _, ok := attrs[k]; !ok {
			order = append(order, k)
		}
		attrs[k] = v
	}
	return attrs, order, missing
}

func c19CheckEnv(s string) {
	r, err := constructOTResources(s)
	want, order, missing := c19RefEnv(s)
	vndAssert((err != nil) == missing, "env-error-iff-a-pair-lacks-equals")
	vndAssert(r.Len() == len(order), "env-attribute-count")
	for _, k := range order {
		v, ok := r.Set().Value(attribute.Key(k))
		vndAssert(ok, "env-key-present")
		if ok {
			w := want[k]
			vndAssert(len(v.AsString()) == len(w), "env-value-decoded-losslessly")
			if len(v.AsString()) == len(w) {
				vndAssert(v.AsString() == w, "env-value-decoded-losslessly")
			}
		}
	}
}

func HarnessC19EnvRaw() {
	s := vndString(vndParam("N", 4))
	if len(s) > 0 {
		vndReach("nonempty")
	}
	c19CheckEnv(s)
}

// structured: k=v pairs with percent escapes, spaces and duplicates
func HarnessC19EnvPairs() {
	n := 1 + vndChoice(2)
	s := ""
	keys := []string{"a", "b", " a", ""}
	vals := []string{"v", "%41", "%4", "a%2Cb", " w ", "x=y", "v%20", "%09v"}
	for i := 0; i < n; i++ {
		if i > 0 {
			s += ","
		}
		s += keys[vndChoice(4)] + "=" + vals[vndChoice(8)] + vndString(1)
	}
	vndReach("pairs")
	c19CheckEnv(s)
}

// OTEL_SERVICE_NAME takes precedence over service.name in OTEL_RESOURCE_ATTRIBUTES
func HarnessC19EnvDetect() {
	name := vndStringN(1)
	vndAssume(vndAnd(name[0] > ' ', name[0] < 0x7f))
	other := vndStringN(1)
	vndAssume(vndAnd(other[0] > ' ', vndAnd(other[0] < 0x7f, vndAnd(other[0] != ',', vndAnd(other[0] != '%', other[0] != '=')))))
	hasSvc := vndChoice(2) == 1
	hasAttr := vndChoice(2) == 1
	vndUnsetEnv("OTEL_SERVICE_NAME")
	vndUnsetEnv("OTEL_RESOURCE_ATTRIBUTES")
	if hasSvc {
		vndSetEnv("OTEL_SERVICE_NAME", name)
	}
	// the attribute list may also hold a pair without "=": it is skipped and
	// reported, the valid pairs and the service-name precedence are unaffected
	broken := hasAttr && vndChoice(2) == 1
	if hasAttr {
		attrs := "service.name=" + other + ",k=1"
		if broken {
			attrs = []string{"broken,", ""}[vndChoice(2)] + attrs + []string{",broken", ""}[vndChoice(2)]
			if len(attrs) == len("service.name="+other+",k=1") {
				attrs += ",broken"
			}
		}
		vndSetEnv("OTEL_RESOURCE_ATTRIBUTES", attrs)
	}
	r, err := fromEnv{}.Detect(context.Background())
	vndReach("env")
	if broken {
		vndReach("env-partial")
		vndAssert(err != nil, "invalid-pair-reported")
		vndAssert(r != nil, "partial-environment-resource-returned")
		if r == nil {
			return
		}
	} else {
		vndAssert(err == nil, "env-detect-no-error")
	}
	v, ok := r.Set().Value("service.name")
	vndAssert(ok == (hasSvc || hasAttr), "env-service-name-presence")
	if hasSvc {
		vndAssert(v.AsString() == name, "otel-service-name-takes-precedence")
	} else if hasAttr {
		vndAssert(v.AsString() == other, "service-name-from-resource-attributes")
	}
	_, hasK := r.Set().Value("k")
	vndAssert(hasK == hasAttr, "env-other-attributes-kept")
}

// C19.detect: later detectors win, failed ones contribute nothing, errors joined
type c19Detector struct {
	res *Resource
	err error
}

func (d c19Detector) Detect(context.Context) (*Resource, error) { return d.res, d.err }

var errC19 = errors.New("detector failed")

func HarnessC19Detect() {
	n := 1 + vndChoice(vndParam("D", 2))
	var ds []Detector
	var want c19Model
	anyErr := false
	for i := 0; i < n; i++ {
		var kvs []attribute.KeyValue
		var m c19Model
		for j := 0; j < 2; j++ {
			if vndChoice(2) == 1 {
				m.has[j], m.val[j] = true, vndI64()
				kvs = append(kvs, c19Keys[j].Int64(m.val[j]))
			}
		}
		d := c19Detector{res: NewSchemaless(kvs...)}
		switch vndChoice(3) {
		case 1:
			d.err = errC19
			anyErr = true
			m = c19Model{} // contributes nothing
		case 2:
			d.err = ErrPartialResource
			anyErr = true
		}
		ds = append(ds, d)
		want = c19MergeModel(want, m)
	}
	r, err := Detect(context.Background(), ds...)
	vndReach("detect")
	vndAssert((err != nil) == anyErr, "detect-reports-detector-errors")
	c19CheckAttrs(r, want, "detect")
}

// C19.sizes: the union is exact for every size (attribute sets use fixed-size
// arrays up to a threshold and a generic path above it): na + nb distinct keys
var c19ManyKeys = []attribute.Key{"k00", "k01", "k02", "k03", "k04", "k05", "k06", "k07", "k08", "k09", "k10", "k11", "k12", "k13", "k14", "k15"}

func HarnessC19Sizes() {
	na, nb := vndChoice(9), vndChoice(9)
	base := vndI64()
	var ka, kb []attribute.KeyValue
	for i := 0; i < na; i++ {
		ka = append(ka, c19ManyKeys[2*i].Int64(base+int64(2*i)))
	}
	for i := 0; i < nb; i++ {
		kb = append(kb, c19ManyKeys[2*i+1].Int64(base+int64(2*i+1)))
	}
	// a repeated key in a long list: the value supplied last wins (sizes above
	// the stable range of an unstable sort)
	dup := na >= 7 && vndChoice(2) == 1
	if dup {
		ka = append([]attribute.KeyValue{c19ManyKeys[0].Int64(base - 1)}, ka...)
	}
	r, err := Merge(NewSchemaless(ka...), NewSchemaless(kb...))
	vndReach("merged")
	vndAssert(err == nil, "merge-no-error")
	vndAssert(r.Len() == na+nb, "merge-is-exactly-the-union")
	for i := 0; i < na; i++ {
		v, ok := r.Set().Value(c19ManyKeys[2*i])
		vndAssert(ok && v.AsInt64() == base+int64(2*i), "merge-never-loses-an-attribute")
	}
	for i := 0; i < nb; i++ {
		v, ok := r.Set().Value(c19ManyKeys[2*i+1])
		vndAssert(ok && v.AsInt64() == base+int64(2*i+1), "merge-never-loses-an-attribute")
	}
}

// C19.invalidonly: resources whose attributes are all invalid are independent
// values: giving one a schema URL does not change another, merging with one is
// the identity
func HarnessC19InvalidOnly() {
	a := NewWithAttributes("https://s1", attribute.String("", "x")) // only an invalid (empty-key) attribute
	b := NewSchemaless(attribute.String("", "y"))
	vndAssert(b.SchemaURL() == "", "schemaless-resource-has-no-schema-url")
	vndAssert(a.SchemaURL() == "https://s1", "schema-url-kept")
	full := NewWithAttributes("https://s2", attribute.Int64("k", vndI64()))
	r, err := Merge(full, b)
	vndReach("merged")
	vndAssert(err == nil, "merge-with-empty-is-the-identity")
	vndAssert(r != nil && r.SchemaURL() == "https://s2" && r.Len() == 1, "merge-with-empty-is-the-identity")
	r2, err2 := Merge(b, full)
	vndAssert(err2 == nil && r2 != nil && r2.SchemaURL() == "https://s2" && r2.Len() == 1, "merge-with-empty-is-the-identity")
}

// C19.detectorlist: resource.New with detector options does not disturb the
// caller's detector slice; each resource holds exactly its detectors' attributes
func HarnessC19DetectorList() {
	mk := func(i int) Detector {
		return c19Detector{res: NewSchemaless(c19ManyKeys[i].Int64(int64(i)))}
	}
	list := []Detector{mk(0), mk(1), mk(2)}
	k := 1 + vndChoice(2) // the first option takes list[:k], leaving spare capacity
	r1, err := New(context.Background(), WithDetectors(list[:k]...), WithDetectors(mk(5)))
	vndAssert(err == nil && r1 != nil, "new-no-error")
	if r1 == nil {
		return
	}
	vndReach("built")
	vndAssert(r1.Len() == k+1, "resource-holds-exactly-its-detectors-attributes")
	_, has5 := r1.Set().Value(c19ManyKeys[5])
	vndAssert(has5, "later-detector-contributes")
	r2, err2 := Detect(context.Background(), list...)
	vndAssert(err2 == nil && r2 != nil, "detect-no-error")
	if r2 == nil {
		return
	}
	vndAssert(r2.Len() == 3, "callers-detector-list-undisturbed")
	for i := 0; i < 3; i++ {
		_, ok := r2.Set().Value(c19ManyKeys[i])
		vndAssert(ok, "callers-detector-list-undisturbed")
	}
}

// C19.longdup: long attribute lists with repeated keys (13..16 entries over 2
// or 3 keys): the resource holds each key once with the value supplied last
func HarnessC19LongDup() {
	n := 13 + vndChoice(4)
	pat := vndChoice(3)
	keys := c19ManyKeys[:3]
	var in []attribute.KeyValue
	var last [3]int64
	var has [3]bool
	for i := 0; i < n; i++ {
		var ki int
		switch pat {
		case 0:
			ki = i % 2
		case 1:
			ki = i % 3
		default:
			ki = (i / 2) % 2
		}
		v := vndI64()
		in = append(in, keys[ki].Int64(v))
		last[ki], has[ki] = v, true
	}
	r := NewSchemaless(in...)
	vndReach("built")
	cnt := 0
	for ki := range keys {
		if has[ki] {
			cnt++
			v, ok := r.Set().Value(keys[ki])
			vndAssert(ok && v.AsInt64() == last[ki], "attribute-list-last-value-wins")
		}
	}
	vndAssert(r.Len() == cnt, "attribute-list-each-key-once")
}
